"""A Unit is one generated C file: a set of translated functions plus the types, models and helper
functions they need.  Two modes:
  whole   - every djinterop callee is translated too (native fidelity run, bounded checks)
  modular - only the requested functions are translated; every other callee is a prototype whose
            definition is a contract stub supplied by the driver (checked caller-against-contract)
"""
import re, collections, hashlib, json
from . import astload
from .ctypes_ import Unsupported, cname, tag, mangle, strip_ref, is_owning
from .translate import FnTranslator, exc_cname


class Unit:
    def __init__(self, prog, mode='whole', loop_contracts=None, externals=None, stubbed=None):
        self.P = prog
        self.mode = mode
        self.loop_contracts = loop_contracts or {}   # (fn key, ordinal) -> [annotation lines]
        self.externals = externals or {}              # fn key -> {'ret': type, 'params': [types], 'throws': bool, 'cname': str}
        self.stubbed = set(stubbed or ())             # fn keys not to translate (prototype only)
        self.types = []            # composite types in first-need order
        self.type_set = set()
        self.models = collections.OrderedDict()
        self.excs = []
        self.wanted = []
        self.done = collections.OrderedDict()   # key -> (head, lines, FnTranslator)
        self.protos = collections.OrderedDict()
        self.helpers = collections.OrderedDict()  # name -> C text
        self.lambdas = collections.OrderedDict()
        self.lambda_sigs = {}
        self.globals_c = collections.OrderedDict()
        self.rec_types = _RecView(self)
        self._maythrow = {}
        self.used_loop_keys = set()
        self.rules = collections.Counter()
        self.literals = collections.OrderedDict()   # string literal text (with quotes) -> small id
        self.contract_keys = None                   # keys that have a contract (None: every callee must have one)
        self.inlined = []
        self.slices = {}                            # fn key -> AST statement kind at which the extracted slice starts
        self.summaries = {}                         # (fn key, loop ordinal) -> C statements replacing the loop
        self.ghosts = {}                            # (fn key, location) -> [C statements] (ghost code from the contract)

    # -- services used by FnTranslator ---------------------------------------------------------------
    def need_type(self, t):
        if t is None:
            return
        k = t[0]
        if k in ('ptr', 'ref'):
            return self.need_type(t[1])
        if k == 'arr':
            return self.need_type(t[1])
        if k in ('int', 'bool', 'double', 'float', 'void'):
            return
        if k == 'opaque':
            raise Unsupported('type %s has no C representation' % t[1])
        if k == 'tuple':
            return
        if k == 'ext':
            self.need_model('zlib')
            return
        if t in self.type_set:
            return
        self.type_set.add(t)
        if k == 'rec':
            if t[1] not in self.P.records:
                raise Unsupported('record %s not defined in the loaded translation units' % t[1])
            for _, ft, _ in self.P.record_fields(t[1]):
                self.need_type(ft)
        elif k in ('vec', 'opt'):
            self.need_type(t[1])
        elif k == 'pair':
            self.need_type(t[1]); self.need_type(t[2])
        elif k == 'str':
            self.need_model('str')
        elif k == 'enum':
            pass
        self.types.append(t)
        if k == 'vec':
            self.models[('vec', t)] = True
            for q in ('std::length_error', 'std::out_of_range', 'std::bad_alloc'):
                self.need_exc(q)

    def need_model(self, name, t=None):
        if name == 'vec':
            self.need_type(t)
            for q in ('std::length_error', 'std::out_of_range', 'std::bad_alloc'):
                self.need_exc(q)
            return
        self.models[(name, t)] = True

    def need_exc(self, q):
        chain = []
        while q is not None:
            chain.append(q)
            q = self.P.exc_parent.get(q)
        for c in chain:
            if c not in self.excs:
                self.excs.append(c)

    def opaque_record(self, q):
        """a class whose state cannot be represented (SQL handles, shared_ptr, ...): its methods lose their `this`
        argument, calls on its members of such types lose their receiver; only calls by contract are possible"""
        if q not in self.P.records:
            return True
        try:
            for nm, ft, _ in self.P.record_fields(q):
                if self._has_opaque(ft):
                    return True
        except Unsupported:
            return True
        return False

    def _has_opaque(self, t, depth=0):
        k = t[0]
        if k == 'opaque':
            return True
        if k in ('ptr', 'ref', 'vec', 'opt'):
            return self._has_opaque(t[1], depth + 1)
        if k == 'pair':
            return self._has_opaque(t[1], depth + 1) or self._has_opaque(t[2], depth + 1)
        if k == 'rec' and depth < 6:
            return self.opaque_record(t[1])
        return False

    def literal_id(self, lit):
        if lit not in self.literals:
            self.literals[lit] = len(self.literals) + 1
            if len(self.literals) >= 63:
                raise Unsupported('more than 62 distinct string literals in one unit')
        return self.literals[lit]

    def loop_summary(self, key, k):
        return self.summaries.get((key, k))

    def ghost(self, key, where):
        return self.ghosts.get((key, where), [])

    def slice_for(self, key):
        return self.slices.get(key)

    def fn_cname(self, key):
        if key in self.externals and 'cname' in self.externals[key]:
            return self.externals[key]['cname']
        base = key
        sig = ''
        m = re.match(r'^(.*?)([<#].*)$', key)
        if m:
            base, sig = m.group(1), m.group(2)
        nm = mangle(base)
        if sig:
            nm += '_' + hashlib.sha1(sig.encode()).hexdigest()[:6]
        return nm

    def external(self, key):
        return self.externals.get(key)

    def want(self, key):
        if key in self.externals:
            return
        if key not in self.wanted:
            self.wanted.append(key)

    def _fn(self, key, need_body=True):
        if '#loop' in key:
            key = key.rsplit('#loop', 1)[0]
        fn = self.P.functions.get(key)
        if fn is None and not need_body:
            q = re.sub(r'[<#].*$', '', key)
            decls = self.P.fn_decls.get(q, [])
            if decls:
                return decls[0]
        if fn is None:
            raise Unsupported('no body for %s' % key)
        return fn

    def param_types(self, key):
        if key in self.externals:
            return self.externals[key]['params']
        fn = self._fn(key, need_body=(self.mode != 'modular'))
        return [self.P.typeof(c) for c in fn.get('inner', []) or [] if c.get('kind') == 'ParmVarDecl']

    def ret_type(self, key):
        if key in self.externals:
            return self.externals[key]['ret']
        fn = self._fn(key, need_body=(self.mode != 'modular'))
        ft = FnTranslator(self.P, self, key, fn)
        return self.P.tp.parse(ft._ret_type_string(fn))

    def may_throw(self, key):
        if key in self.externals:
            return self.externals[key].get('throws', True)
        if key in self._maythrow:
            return self._maythrow[key]
        self._maythrow[key] = False   # recursion guard (no recursion in the extracted subset)
        if key not in self.P.functions and self.mode == 'modular':
            self._maythrow[key] = True   # body not loaded: the contract stub decides; callers must test verif_exc
            return True
        fn = self._fn(key)
        r = False
        for x in astload.walk(fn):
            k = x.get('kind')
            if k == 'CXXThrowExpr':
                r = True
            elif k == 'DeclRefExpr' and x['referencedDecl'].get('kind') in ('FunctionDecl', 'CXXMethodDecl'):
                rid = x['referencedDecl']['id']
                ck = self.P.fn_qname.get(rid)
                if ck and ck != key and (ck in self.P.functions or ck in self.externals):
                    if self.may_throw(ck):
                        r = True
            elif k == 'MemberExpr':
                rid = x.get('referencedMemberDecl')
                ck = self.P.fn_qname.get(rid)
                if ck and ck != key and (ck in self.P.functions or ck in self.externals):
                    if self.may_throw(ck):
                        r = True
                elif ck is None and x.get('name') in ('reserve', 'resize', 'at', 'value'):
                    r = True
            elif k in ('CXXConstructExpr', 'CXXTemporaryObjectExpr'):
                t = x['type'].get('desugaredQualType', x['type']['qualType'])
                if t.startswith('std::vector<'):
                    args = [a for a in x.get('inner', []) or [] if a and a.get('kind') != 'CXXDefaultArgExpr']
                    if len(args) == 1:
                        at = args[0].get('type', {}).get('desugaredQualType', args[0].get('type', {}).get('qualType', ''))
                        if 'vector' not in at:
                            r = True
            if r:
                break
        self._maythrow[key] = r
        return r

    def loop_contract(self, key, k):
        lc = self.loop_contracts.get((key, k))
        if lc is not None:
            self.used_loop_keys.add((key, k))
            # VERIF_LC(...) vanishes under -DVERIF_NO_LOOP_CONTRACTS (bounded runs unwind the loop instead; an annotation that
            # names a variable the current code no longer has must not stop those runs from compiling)
            return ['VERIF_LC(%s)' % l for l in lc]
        return []

    # helper function generators --------------------------------------------------------------------
    def copy_fn(self, t):
        name = 'copy_' + tag(t)
        if name in self.helpers:
            return name
        self.helpers[name] = None  # reserve (recursion)
        self.need_type(t)
        ct = cname(t)
        k = t[0]
        recs = self.rec_types
        if k == 'vec':
            self.need_model('vec', t)
            inner = self.copy_fn(t[1]) if is_owning(t[1], recs) else None
            body = ['  %s r = vec_%s_copy_shallow(s);' % (ct, tag(t[1]))]
            if inner:
                body.append('#if defined(VERIF_CBMC) && defined(VERIF_ABSTRACT)')
                body.append('  /* every element is deep-copied: stated for the arbitrary ghost element position verif_g2 (verif_g is the')
                body.append('   * ghost BYTE position inside the strings of that element) */')
                body.append('  if (verif_g2 < s->size) r.data[verif_g2] = %s(&s->data[verif_g2]);' % inner)
                body.append('#else')
                body.append('  for (size_t i = 0; i < s->size; ++i) VERIF_MODEL_LOOP r.data[i] = %s(&s->data[i]);' % inner)
                body.append('#endif')
            body.append('  return r;')
        elif k == 'str':
            self.need_model('str')
            body = ['  return str_copy(s);']
        elif k == 'opt':
            inner = self.copy_fn(t[1])
            body = ['  %s r = *s;' % ct, '  if (s->has) r.val = %s(&s->val);' % inner, '  return r;']
        elif k == 'pair':
            body = ['  %s r = *s;' % ct]
            for f, ft in (('first', t[1]), ('second', t[2])):
                if is_owning(ft, recs):
                    body.append('  r.%s = %s(&s->%s);' % (f, self.copy_fn(ft), f))
            body.append('  return r;')
        elif k == 'rec':
            body = ['  %s r = *s;' % ct]
            for fn_, ft, _ in self.P.record_fields(t[1]):
                if is_owning(ft, recs):
                    body.append('  r.%s = %s(&s->%s);' % (fn_, self.copy_fn(ft), fn_))
            body.append('  return r;')
        else:
            body = ['  return *s;']
        self.helpers[name] = 'static %s %s(const %s* s)\n{\n%s\n}\n' % (ct, name, ct, '\n'.join(body))
        self.helpers.move_to_end(name)
        return name

    def default_fn(self, t, zero=False):
        name = ('zero_' if zero else 'default_') + tag(t)
        if name in self.helpers:
            return name
        self.helpers[name] = None
        self.need_type(t)
        ct = cname(t)
        body = ['  %s r%s;' % (ct, ' = {0}' if zero else '')]
        ft_ = FnTranslator(self.P, self, '<default member initialisers of %s>' % t[1], {'kind': 'FunctionDecl', 'type': {'qualType': 'void ()'}})
        ft_.ret_t = ('void',)
        for fn_, ft, init in self.P.record_fields(t[1]):
            if init is not None:
                e = ft_.rvalue_for(init, ft)
                body += ['  ' + l for l in ft_.flush()]
                body.append('  r.%s = %s;' % (fn_, e))
            elif ft[0] == 'vec':
                self.need_model('vec', ft)
                body.append('  r.%s = vec_%s_default();' % (fn_, tag(ft[1])))
            elif ft[0] in ('str', 'opt', 'pair'):
                body.append('  r.%s = (%s){0};' % (fn_, cname(ft)))
            elif ft[0] == 'rec':
                dc = self.find_ctor(ft[1], 'void ()')
                body.append('  r.%s = %s();' % (fn_, self.ctor_fn(ft[1], dc) if dc is not None else self.default_fn(ft, zero)))
        body.append('  return r;')
        self.helpers[name] = 'static %s %s(void)\n{\n%s\n}\n' % (ct, name, '\n'.join(body))
        self.helpers.move_to_end(name)
        return name

    def find_ctor(self, q, ctor_type):
        want = re.sub(r'\s+|noexcept|constexpr', '', ctor_type)
        for c in self.P.ctors.get(q, []):
            have = re.sub(r'\s+|noexcept|constexpr', '', c['type']['qualType'])
            if have == want:
                return c
        return None

    def ctor_fn(self, q, ctor):
        """user-provided constructor -> C function returning the constructed object: default member initialisers,
        then the mem-initialiser list, then the body"""
        sig = re.sub(r'\s+', '', ctor['type']['qualType'])
        name = 'ctor_%s_%s' % (mangle(q), hashlib.sha1(sig.encode()).hexdigest()[:6])
        if name in self.helpers:
            return name
        self.helpers[name] = None
        t = ('rec', q)
        self.need_type(t)
        ct = cname(t)
        ft = FnTranslator(self.P, self, '<constructor of %s>' % q, {'kind': 'FunctionDecl', 'type': {'qualType': 'void ()'}})
        ft.ret_t = ('void',)
        params = []
        for c in ctor.get('inner', []) or []:
            if c.get('kind') == 'ParmVarDecl':
                pt = self.P.typeof(c)
                ft.local_names[c['id']] = (c['name'], pt)
                params.append('%s* %s' % (cname(pt[1]), c['name']) if pt[0] == 'ref' else '%s %s' % (cname(pt), c['name']))
        body = ['  %s __obj;' % ct]
        inits = {}
        for c in ctor.get('inner', []) or []:
            if c.get('kind') == 'CXXCtorInitializer':
                fld = c.get('anyInit', {}).get('name')
                ex = [x for x in c.get('inner', []) or [] if x]
                if fld is None or not ex:
                    raise Unsupported('constructor initialiser form in %s' % q)
                inits[fld] = ex[0]
        for fn_, fty, nsdmi in self.P.record_fields(q):
            src = inits.get(fn_, nsdmi)
            if src is not None:
                e = ft.rvalue_for(src, fty)
                body += ['  ' + l for l in ft.flush()]
                body.append('  __obj.%s = %s;' % (fn_, e))
            elif fty[0] == 'vec':
                self.need_model('vec', fty)
                body.append('  __obj.%s = vec_%s_default();' % (fn_, tag(fty[1])))
            elif fty[0] in ('str', 'opt', 'pair'):
                body.append('  __obj.%s = (%s){0};' % (fn_, cname(fty)))
            elif fty[0] == 'rec':
                body.append('  __obj.%s = %s;' % (fn_, ft.default_value(fty)))
        cb = [c for c in ctor.get('inner', []) or [] if c.get('kind') == 'CompoundStmt']
        if cb and cb[0].get('inner'):
            raise Unsupported('constructor of %s has a non-empty body' % q)
        body.append('  return __obj;')
        self.helpers[name] = 'static %s %s(%s)\n{\n%s\n}\n' % (ct, name, ', '.join(params) or 'void', '\n'.join(body))
        self.helpers.move_to_end(name)
        return name

    def eq_fn(self, t):
        name = 'eq_' + tag(t)
        if name in self.helpers:
            return name
        self.helpers[name] = None
        self.need_type(t)
        ct = cname(t)
        k = t[0]

        def eq_expr(a, b, ft):
            if ft[0] in ('int', 'bool', 'double', 'float', 'ptr', 'enum'):
                return '(%s == %s)' % (a, b)
            return '%s(&%s, &%s)' % (self.eq_fn(ft), a, b)
        if k == 'vec':
            body = ['  if (a->size != b->size) return 0;',
                    '  for (size_t i = 0; i < a->size; ++i) VERIF_MODEL_LOOP if (!%s) return 0;' % eq_expr('a->data[i]', 'b->data[i]', t[1]),
                    '  return 1;']
        elif k == 'str':
            self.need_model('str')
            body = ['  return str_eq(a, b);']
        elif k == 'opt':
            body = ['  if (a->has != b->has) return 0;', '  if (!a->has) return 1;', '  return %s;' % eq_expr('a->val', 'b->val', t[1])]
        elif k == 'pair':
            body = ['  return %s && %s;' % (eq_expr('a->first', 'b->first', t[1]), eq_expr('a->second', 'b->second', t[2]))]
        elif k == 'rec':
            # the struct's own operator== if it has one (translated from the real code), else memberwise
            key = self._user_eq(t[1])
            if key:
                self.want(key)
                body = ['  return %s(a, b);' % self.fn_cname(key)]
            else:
                parts = [eq_expr('a->' + f, 'b->' + f, ft) for f, ft, _ in self.P.record_fields(t[1])]
                body = ['  return %s;' % (' && '.join(parts) or '1')]
        else:
            body = ['  return *a == *b;']
        self.helpers[name] = 'static _Bool %s(const %s* a, const %s* b)\n{\n%s\n}\n' % (name, ct, ct, '\n'.join(body))
        self.helpers.move_to_end(name)
        return name

    def _user_eq(self, q):
        for key, fn in self.P.functions.items():
            if fn.get('name') == 'operator==' :
                ps = [c for c in fn.get('inner', []) or [] if c.get('kind') == 'ParmVarDecl']
                if len(ps) == 2 and all(strip_ref(self.P.typeof(p)) == ('rec', q) for p in ps):
                    return key
        return None

    def global_array_at(self, q, node):
        """constant std::array global: an accessor function over its initialiser list; returns (C function name, element count)"""
        name = mangle(q) + '_at'
        lst = [x for x in node.get('inner', []) or [] if x.get('kind') == 'InitListExpr']
        if not lst:
            raise Unsupported('std::array global %s without initialiser list' % q)
        inner = [x for x in lst[0].get('inner', []) or [] if x.get('kind') == 'InitListExpr']
        elems = [x for x in (inner[0] if inner else lst[0]).get('inner', []) or [] if 'kind' in x]
        if not elems:
            raise Unsupported('std::array global %s is empty' % q)
        et = strip_ref(self.P.typeof(elems[0]))
        if name not in self.globals_c:
            cases = []
            for k_, el in enumerate(elems):
                sub = FnTranslator(self.P, self, '<element %d of %s>' % (k_, q), {'kind': 'FunctionDecl', 'type': {'qualType': 'void ()'}})
                sub.ret_t = ('void',)
                e = sub.init_value(el, et)
                cases.append('case %d: { %s return %s; }' % (k_, ' '.join(sub.pre), e))
            self.need_type(et)
            self.globals_c[name] = 'static %s %s(size_t i) { switch (i) { %s } %s z; return z; }' % (cname(et), name, ' '.join(cases), cname(et))
        return name, len(elems), et

    def global_const(self, q, node, ft):
        name = mangle(q)
        if name in getattr(self, 'global_is_fn', set()):
            return name + '()'
        if name not in self.globals_c:
            t = self.P.typeof(node)
            inits = [x for x in node.get('inner', []) or [] if 'kind' in x and not x['kind'].endswith('Attr') and x['kind'] != 'FullComment']
            if not inits:
                raise Unsupported('global %s without initialiser' % q)
            if t[0] == 'rec':
                # constant of record type: a function returning the value its initialiser denotes
                sub = FnTranslator(self.P, self, '<initialiser of %s>' % q, {'kind': 'FunctionDecl', 'type': {'qualType': 'void ()'}})
                sub.ret_t = ('void',)
                e = sub.init_value(inits[0], t)
                self.need_type(t)
                self.globals_c[name] = 'static %s %s(void) { %s return %s; }' % (cname(t), name, ' '.join(sub.pre), e)
                self.global_is_fn = getattr(self, 'global_is_fn', set()) | {name}
                return name + '()'
            if t[0] not in ('int', 'double', 'bool', 'float', 'enum'):
                raise Unsupported('non-scalar global %s' % q)
            sub = FnTranslator(self.P, self, '<initialiser of %s>' % q, {'kind': 'FunctionDecl', 'type': {'qualType': 'void ()'}})
            sub.ret_t = ('void',)
            e = sub.ex(inits[0])
            if sub.pre:
                raise Unsupported('global initialiser of %s needs statements' % q)
            self.globals_c[name] = '#define %s ((%s)%s)' % (name, cname(t), e)
        return name

    def lift_lambda(self, ft, lam, _):
        lid = lam['id']
        if lid in self.lambdas:
            return self.lambdas[lid][0], self.lambdas[lid][3]
        rec = lam['inner'][0]
        ops = [c for c in rec['inner'] if c.get('kind') == 'CXXMethodDecl' and c.get('name') == 'operator()']
        if not ops:
            # generic lambda (auto parameter): the call operator is a template; take its (single) instantiation
            for t in rec['inner']:
                if t.get('kind') == 'FunctionTemplateDecl' and t.get('name') == 'operator()':
                    ops = [c for c in t.get('inner', []) if c.get('kind') == 'CXXMethodDecl' and any(x.get('kind') == 'CompoundStmt' for x in c.get('inner', []))
                           and any(x.get('kind') == 'TemplateArgument' for x in c.get('inner', []))]
            if len(ops) != 1:
                raise Unsupported('generic lambda with %d instantiations' % len(ops))
        op = ops[0]
        fields = [c for c in rec['inner'] if c.get('kind') == 'FieldDecl']
        cap_inits = [c for c in lam['inner'][1:] if c.get('kind') != 'CompoundStmt']
        if len(fields) != len(cap_inits):
            raise Unsupported('lambda capture list shape')
        name = '%s__lambda%d' % (ft.cname_ if hasattr(ft, 'cname_') else 'anon', len(self.lambdas))
        op['_q'] = ft.key + '::<lambda>::operator()'
        sub = FnTranslator(self.P, self, ft.key + '::<lambda>', op)
        sub.is_method = False
        cap_params, cap_args = [], []
        for f, ci in zip(fields, cap_inits):
            dre = ci
            while dre['kind'] != 'DeclRefExpr':
                dre = sub.only(dre)
            rid = dre['referencedDecl']['id']
            nm, vt = ft.local_names[rid]
            ftype = self.P.typeof(f)
            if ftype[0] == 'ref':
                sub.local_names[rid] = (nm, ('ref', strip_ref(vt)))
                cap_params.append('%s* %s' % (cname(strip_ref(vt)), nm))
                cap_args.append(nm if vt[0] == 'ref' else '&' + nm)
            else:
                sub.local_names[rid] = (nm, strip_ref(vt))
                cap_params.append('%s %s' % (cname(strip_ref(vt)), nm))
                cap_args.append('(*%s)' % nm if vt[0] == 'ref' else nm)
        sub.cname_override = name
        self.lambdas[lid] = (name, None, None, cap_args)
        # translate (the lifted function is emitted before its user)
        orig_fn_cname = self.fn_cname
        head, lines = sub.translate()
        # replace the generated name/params
        params = head[head.index('(') + 1:-1]
        params = '' if params == 'void' else params
        allp = ', '.join([p for p in [params] + cap_params if p])
        rett = head[:head.index(' ' + sub.cname_ + '(')]
        head = 'static %s %s(%s)' % (rett, name, allp or 'void')
        self.lambdas[lid] = (name, head, lines, cap_args)
        self.lambda_sigs[name] = [pt for _, pt in sub.param_names]
        ft.rules.update({'lambda-lift': 1})
        for k_, v in sub.rules.items():
            ft.rules[k_] += v
        ft.callees |= sub.callees
        return name, cap_args

    def lambda_params(self, name):
        return self.lambda_sigs[name]

    # -- driving -------------------------------------------------------------------------------------
    def translate_all(self, keys):
        for k in keys:
            self.want(k)
        i = 0
        while i < len(self.wanted):
            key = self.wanted[i]
            i += 1
            if key in self.done or key in self.protos:
                continue
            if self.mode == 'modular' and (key in self.stubbed or key not in keys):
                if self.contract_keys is not None and key not in self.contract_keys and key in self.P.functions:
                    # a djinterop callee without a contract (e.g. a freshly extracted helper): its real body is translated
                    # too and verified as part of the caller (recorded in the evidence as inlined)
                    self.inlined.append(key)
                else:
                    self.protos[key] = self.prototype(key)
                    continue
            fn = self._fn(key)
            ft = FnTranslator(self.P, self, key, fn)
            head, lines = ft.translate()
            self.done[key] = (head, lines, ft)
            self.rules.update(ft.rules)
        return self

    def prototype(self, key):
        fn = self._fn(key, need_body=False)
        ft = FnTranslator(self.P, self, key, fn)
        ps = ft.signature()
        params = []
        for nm, t, isref in ps:
            if strip_ref(t)[0] == 'opaque' or (t[0] == 'ptr' and t[1][0] == 'opaque'):
                continue
            params.append('%s* %s' % (ft.ctype(t[1]), nm) if isref else ft.decl(t, nm))
        rett = 'void' if ft.ret_t[0] == 'void' else ft.ctype(ft.ret_t)
        return '%s %s(%s)' % (rett, self.fn_cname(key), ', '.join(params) if params else 'void')

    def signature(self, key):
        fn = self._fn(key, need_body=False)
        ft = FnTranslator(self.P, self, key, fn)
        ps = [p for p in ft.signature() if not (strip_ref(p[1])[0] == 'opaque' or (p[1][0] == 'ptr' and p[1][1][0] == 'opaque'))]
        return ps, ft.ret_t

    # -- emission ------------------------------------------------------------------------------------
    def emit(self):
        out = []
        out.append('/* generated by cxx2c from the clang AST of the /repo working tree - do not edit */')
        out.append('#include "verif_prelude.h"')
        # exceptions
        allexc = list(self.excs)
        out.append('/* exception kinds (dynamic type only) */')
        out.append('enum verif_exc_kind { EXC_NONE = 0,')
        for i, q in enumerate(allexc):
            out.append('  %s = %d,' % (exc_cname(q), i + 1))
        out.append('  EXC__LAST };')
        out.append('#ifndef VERIF_NO_EXC_DEFS')
        out.append('int verif_exc = 0;')
        out.append('#ifdef VERIF_CBMC')
        out.append('size_t verif_g; size_t verif_g2; uint64_t verif_written; size_t verif_sum; size_t verif_elem; verif_call_t verif_calls[24]; size_t verif_ncalls; const void* verif_mark[4];')
        out.append('#endif')
        out.append('static int verif_exc_parent_of(int e) { switch (e) {')
        depth = 1
        for q in allexc:
            p = self.P.exc_parent.get(q)
            if p:
                out.append('  case %s: return %s;' % (exc_cname(q), exc_cname(p)))
            d, x = 1, q
            while self.P.exc_parent.get(x):
                x = self.P.exc_parent[x]; d += 1
            depth = max(depth, d)
        out.append('  default: return 0; } }')
        out.append('/* is exception kind e the same as, or derived from, k?  (loop-free: the hierarchy is %d deep) */' % depth)
        out.append('static _Bool verif_exc_isa(int e, int k) { %s return 0; }' % ' '.join(
            'if (e == 0) return 0; if (e == k) return 1; e = verif_exc_parent_of(e);' for _ in range(depth + 1)))
        out.append('#endif')
        # enums
        for t in self.types:
            if t[0] == 'enum':
                e = self.P.enums[t[1]]
                und = self.P.tp.parse(e['underlying'])
                out.append('typedef %s %s;' % (cname(und), cname(t)))
                out.append('enum { %s };' % ', '.join('%s = %d' % (mangle(t[1] + '::' + n), v) for n, v in e['values']) if e['values'] else '')
        # forward typedefs
        for t in self.types:
            if t[0] in ('rec', 'vec', 'opt', 'pair'):
                out.append('typedef struct %s %s;' % (cname(t), cname(t)))
        if any(m[0] == 'str' for m in self.models) or ('str',) in self.type_set:
            out.append('#include "verif_str.h"')
        for t in self._ordered_types():
            k = t[0]
            if k == 'rec':
                out.append('struct %s {' % cname(t))
                fields = self.P.record_fields(t[1])
                for fn_, ft, _ in fields:
                    out.append('  %s %s;' % (cname(ft), fn_))
                if not fields:
                    out.append('  char __empty;')
                out.append('};')
            elif k == 'vec':
                out.append('struct %s { %s* data; size_t size; size_t cap; };' % (cname(t), cname(t[1])))
            elif k == 'opt':
                out.append('struct %s { _Bool has; %s val; };' % (cname(t), cname(t[1])))
            elif k == 'pair':
                out.append('struct %s { %s first; %s second; };' % (cname(t), cname(t[1]), cname(t[2])))
        for (m, t) in self.models:
            if m == 'vec':
                out.append('VERIF_VEC_IMPL(%s, %s)' % (tag(t[1]), cname(t[1])))
        for m in ('arith', 'math', 'mem', 'check', 'zlib'):
            if (m, None) in self.models:
                out.append('#include "verif_%s.h"' % m)
        for g in self.globals_c.values():
            if not g.startswith('static '):
                out.append(g)
        out.append('/* prototypes */')
        for key, (head, lines, ft) in self.done.items():
            out.append(head + ';')
        for key, proto in self.protos.items():
            out.append('%s; /* contract stub: %s */' % (proto, key))
        for key, ext in self.externals.items():
            if 'proto' in ext:
                out.append(ext['proto'] + ';')
        if self.protos:
            out.append('/* identifiers of the contract stubs in the ghost call log */')
            out.append('enum { FN__none' + ''.join(', FN_%s' % self.fn_cname(c_) for c_ in self.protos.keys()) + ' };')
        for name, text in self.helpers.items():
            if text:
                out.append(text.split('\n')[0] + ';')
        out.append('/* helpers (copy / default / equality, generated from the record definitions) */')
        for name, text in self.helpers.items():
            if text:
                out.append(text)
        # constants of record / std::array type: functions over their initialisers (after the constructors they may call);
        # record constants first (array accessors refer to them)
        gfn = [g for g in self.globals_c.values() if g.startswith('static ')]
        for g in sorted(gfn, key=lambda g_: '(size_t i)' in g_.split('{')[0]):
            out.append(g)
        for lid, (name, head, lines, caps) in self.lambdas.items():
            out.append('/* lifted lambda */')
            out.append(head)
            out += lines
        for key, (head, lines, ft) in self.done.items():
            out.append('/* %s */' % key)
            out.append(head)
            out += lines
            out.append('')
        return '\n'.join(out) + '\n'

    def _ordered_types(self):
        order, seen = [], set()

        def visit(t):
            if t in seen or t[0] not in ('rec', 'vec', 'opt', 'pair'):
                return
            seen.add(t)
            if t[0] == 'rec':
                for _, ft, _ in self.P.record_fields(t[1]):
                    visit(ft)
            elif t[0] == 'opt':
                visit(t[1])
            elif t[0] == 'pair':
                visit(t[1]); visit(t[2])
            elif t[0] == 'vec':
                pass  # pointer only
            order.append(t)
        for t in self.types:
            visit(t)
        return order

    def fn_hashes(self):
        h = {}
        for key, (head, lines, ft) in self.done.items():
            node = ft.node
            clean = ft._strip_ids(node)
            h[key] = hashlib.sha256(json.dumps(clean, sort_keys=True, default=str).encode()).hexdigest()[:16]
        return h


class _RecView(dict):
    """records view for is_owning(): name -> {'fields': [...]} computed lazily."""
    def __init__(self, unit):
        self.unit = unit

    def get(self, q, default=None):
        if q not in self.unit.P.records:
            return default
        return {'fields': self.unit.P.record_fields(q)}
