"""cxx2c: mechanical translation of selected djinterop functions from clang's typed JSON AST to C.

One rule per AST node kind; anything without a rule raises Unsupported (reported by the driver as an
"extraction break", exit 2 - never as a property violation).  No per-function special cases.
"""
import os, re, json, hashlib, collections
from . import astload
from .ctypes_ import (TypeParser, Unsupported, cname, tag, mangle, strip_ref, is_owning, BUILTINS)

# ---- exceptions -------------------------------------------------------------------------------
# dynamic type of the exception object is all that is kept.  parent links are used by catch().
STD_EXC = {
    'std::exception': None, 'std::logic_error': 'std::exception', 'std::runtime_error': 'std::exception',
    'std::invalid_argument': 'std::logic_error', 'std::length_error': 'std::logic_error',
    'std::out_of_range': 'std::logic_error', 'std::domain_error': 'std::logic_error',
    'std::system_error': 'std::runtime_error', 'std::overflow_error': 'std::runtime_error',
    'std::bad_alloc': 'std::exception', 'std::bad_optional_access': 'std::exception',
}

def exc_cname(q):
    return 'EXC_' + re.sub(r'[^A-Za-z0-9]', '_', q.replace('djinterop::', '').replace('std::', 'std_'))


class Program:
    """All translation units we read, indexed by declaration id and qualified name."""

    def __init__(self, repo, gen_dir):
        self.repo, self.gen_dir = repo, gen_dir
        self.by_id = {}          # decl id -> (node, qualified name)
        self.functions = {}      # qualified name (+signature suffix for overloads) -> node
        self.fn_qname = {}       # decl id -> key in self.functions
        self.records = {}        # qualified name -> {'fields': [(name, type, init_node)], 'node': n, 'bases': [...]}
        self.enums = {}          # qualified name -> {'underlying': type, 'values': [(name, value)]}
        self.ctors = {}          # record qualified name -> [user-provided CXXConstructorDecl nodes with a body]
        self.fn_decls = {}       # qualified name -> every declaration node (default arguments live on any of them)
        self.globals = {}        # decl id -> (qualified name, node)
        self.exc_parent = dict(STD_EXC)
        self.tus = []
        self.ast_hash = {}
        self._pending_records = []
        self.tp = TypeParser(set(), {}, {})

    # -- loading ---------------------------------------------------------------------------------
    def load(self, src):
        objs = astload.dump_ast(src, self.gen_dir, self.repo)
        self.tus.append(src)
        for o in objs:
            self._index(o, [])
        self._finish_records()

    def _index(self, n, scope):
        k = n.get('kind')
        name = n.get('name')
        if k == 'NamespaceDecl':
            sub = scope + [name if name else '(anonymous namespace)']
            for c in n.get('inner', []) or []:
                self._index(c, sub)
            return
        if k in ('CXXRecordDecl', 'ClassTemplateSpecializationDecl'):
            if not name:
                return
            q = '::'.join(scope + [name])
            self.by_id[n['id']] = (n, q)
            if n.get('completeDefinition') or any(c.get('kind') == 'FieldDecl' for c in n.get('inner', []) or []):
                self._pending_records.append((q, n))
                self.tp.records.add(q)
            for c in n.get('inner', []) or []:
                if c.get('kind') in ('CXXMethodDecl', 'CXXRecordDecl', 'EnumDecl', 'FunctionDecl', 'FriendDecl',
                                     'TypeAliasDecl', 'TypedefDecl', 'FunctionTemplateDecl', 'VarDecl', 'CXXConstructorDecl'):
                    self._index(c, scope + [name])
            return
        if k == 'FriendDecl':
            for c in n.get('inner', []) or []:
                self._index(c, scope[:-1])
            return
        if k == 'EnumDecl':
            q = '::'.join(scope + [name]) if name else None
            if not q:
                return
            self.by_id[n['id']] = (n, q)
            vals, nxt = [], 0
            for c in n.get('inner', []) or []:
                if c.get('kind') == 'EnumConstantDecl':
                    v = self._enum_value(c)
                    if v is None:
                        v = nxt
                    vals.append((c['name'], v))
                    self.by_id[c['id']] = (c, q + '::' + c['name'])
                    nxt = v + 1
            if vals or q not in self.enums:
                und = n.get('fixedUnderlyingType', {}).get('qualType', 'int')
                self.enums[q] = {'underlying': und, 'values': vals}
                self.tp.enums[q] = und
            return
        if k in ('TypeAliasDecl', 'TypedefDecl'):
            q = '::'.join(scope + [name])
            self._aliases_raw = getattr(self, '_aliases_raw', {})
            self._aliases_raw[q] = n['type'].get('desugaredQualType', n['type']['qualType'])
            return
        if k == 'CXXConstructorDecl':
            owner = '::'.join(scope)
            if not n.get('isImplicit') and any(c.get('kind') == 'CompoundStmt' for c in n.get('inner', []) or []):
                self.ctors.setdefault(owner, []).append(n)
            return
        if k in ('FunctionDecl', 'CXXMethodDecl'):
            q = self._fn_scope_name(n, scope)
            self.by_id[n['id']] = (n, q)
            has_body = any(c.get('kind') == 'CompoundStmt' for c in n.get('inner', []) or [])
            key = q
            if has_body:
                if key in self.functions and self.functions[key]['id'] != n['id']:
                    # overload or same inline function seen from another TU
                    old = self.functions[key]
                    if self._sig(old) != self._sig(n):
                        key = q + '#' + self._sig(n)
                self.functions[key] = n
                n['_static_method'] = n.get('storageClass') == 'static'
            self.fn_qname[n['id']] = key
            self.fn_decls.setdefault(q, []).append(n)
            n['_q'] = q
            n['_scope'] = list(scope)
            # a later body-less redeclaration must not shadow; a previous decl id maps to the same name
            if 'previousDecl' in n:
                self.fn_qname.setdefault(n['previousDecl'], key)
            return
        if k == 'FunctionTemplateDecl':
            for c in n.get('inner', []) or []:
                if c.get('kind') in ('FunctionDecl', 'CXXMethodDecl'):
                    # the first inner FunctionDecl is the pattern (dependent types): skip it
                    if self._is_dependent(c):
                        continue
                    self._index_specialisation(c, scope)
            return
        if k == 'VarDecl':
            q = '::'.join(scope + [name])
            self.by_id[n['id']] = (n, q)
            self.globals[n['id']] = (q, n)
            return
        if k in ('LinkageSpecDecl',):
            for c in n.get('inner', []) or []:
                self._index(c, scope)
            return
        # other declaration kinds (using, static_assert, ...) carry no code
        return

    def _is_dependent(self, fn):
        for x in astload.walk(fn):
            t = x.get('type', {}).get('qualType', '')
            if '<dependent type>' in t:
                return True
            if x.get('kind') in ('CXXDependentScopeMemberExpr', 'UnresolvedLookupExpr', 'CXXUnresolvedConstructExpr'):
                return True
        # parameters with template parameter types
        for c in fn.get('inner', []) or []:
            if c.get('kind') == 'ParmVarDecl' and re.search(r'\b[TU]\b', c['type']['qualType']):
                return True
        return False

    def _index_specialisation(self, n, scope):
        q = '::'.join(scope + [n['name']])
        sig = self._sig(n)
        key = q + '<' + sig + '>'
        self.by_id[n['id']] = (n, q)
        if any(c.get('kind') == 'CompoundStmt' for c in n.get('inner', []) or []):
            self.functions[key] = n
        self.fn_qname[n['id']] = key
        n['_q'] = q
        n['_scope'] = list(scope)

    def _sig(self, n):
        return re.sub(r'\s+', '', n['type']['qualType'])

    def _fn_scope_name(self, n, scope):
        if 'parentDeclContextId' in n and n['parentDeclContextId'] in self.by_id:
            pn, pq = self.by_id[n['parentDeclContextId']]
            if pn.get('kind') in ('CXXRecordDecl',):
                return pq + '::' + n['name']
        return '::'.join(scope + [n['name']])

    def _enum_value(self, c):
        for x in astload.walk(c):
            if x.get('kind') == 'ConstantExpr' and 'value' in x:
                return int(x['value'])
        for x in astload.walk(c):
            if x.get('kind') == 'IntegerLiteral':
                return int(x['value'])
        return None

    def _finish_records(self):
        for q, raw in getattr(self, '_aliases_raw', {}).items():
            try:
                self.tp.aliases[q] = self.tp.parse(raw)
            except Unsupported:
                pass
        for q, n in self._pending_records:
            fields = []
            for c in n.get('inner', []) or []:
                if c.get('kind') == 'FieldDecl':
                    ts = c['type'].get('desugaredQualType', c['type']['qualType'])
                    init = None
                    for x in c.get('inner', []) or []:
                        if 'kind' in x and x['kind'] not in ('FullComment',) and not x['kind'].endswith('Attr'):
                            init = x
                    fields.append((c['name'], ts, init))
                    self.by_id[c['id']] = (c, q + '::' + c['name'])
            bases = [b['type'].get('desugaredQualType', b['type']['qualType']) for b in n.get('bases', [])]
            self.records[q] = {'fields_raw': fields, 'node': n, 'bases': bases}
            for b in bases:
                if b in self.exc_parent or b.startswith('std::') and b.endswith(('error', 'exception', 'argument')):
                    self.exc_parent[q] = b
        self._pending_records = []
        # exception hierarchy inside djinterop (bases that are djinterop exceptions)
        changed = True
        while changed:
            changed = False
            for q, r in self.records.items():
                if q in self.exc_parent:
                    continue
                for b in r['bases']:
                    bq = self.tp.resolve(b) or b
                    if bq in self.exc_parent:
                        self.exc_parent[q] = bq
                        changed = True

    def find_local_const(self, rid):
        """a constexpr / static const local of some loaded function, by declaration id"""
        if not hasattr(self, '_local_consts'):
            self._local_consts = {}
            for fn in self.functions.values():
                for x in astload.walk(fn):
                    if x.get('kind') == 'VarDecl' and (x.get('constexpr') or x.get('storageClass') == 'static'):
                        self._local_consts[x['id']] = x
        return self._local_consts.get(rid)

    def record_fields(self, q):
        r = self.records[q]
        if 'fields' not in r:
            r['fields'] = [(nm, self.tp.parse(ts), init) for nm, ts, init in r['fields_raw']]
        return r['fields']

    def typeof(self, node):
        t = node['type']
        return self.tp.parse(t.get('desugaredQualType', t['qualType']))


# ---- model registry ----------------------------------------------------------------------------
# std:: entities with a C model.  (member name, object kind) -> how to call.
VEC_MEMBERS = {'size', 'data', 'empty', 'push_back', 'emplace_back', 'reserve', 'resize', 'clear', 'insert', 'erase',
               'begin', 'end', 'cbegin', 'cend', 'back', 'front', 'operator[]', 'at'}
STR_MEMBERS = {'length', 'size', 'assign', 'empty', 'data', 'c_str', 'begin', 'end', 'operator[]'}
OPT_MEMBERS = {'value_or', 'has_value', 'value', 'operator bool', 'operator*', 'operator->', 'reset'}
MAYTHROW_MODELS = {'vec_ctor_n', 'vec_reserve', 'vec_resize', 'vec_resize_val', 'vec_resize_zero', 'opt_value', 'vec_at'}


class _NoContracts:
    """view of a Unit without loop contracts/summaries/ghost code and without side effects on it (used for dry runs)"""
    def __init__(self, unit):
        self._u = unit
        self.mode = unit.mode
        self.rec_types = unit.rec_types
        self.P = unit.P

    def loop_contract(self, key, k):
        return []

    def loop_summary(self, key, k):
        return None

    def ghost(self, key, where):
        return []

    def slice_for(self, key):
        return None

    def __getattr__(self, name):
        return getattr(self._u, name)


class FnTranslator:
    """Translate one FunctionDecl to C text."""

    def __init__(self, prog, unit, key, node):
        self.P, self.U, self.key, self.node = prog, unit, key, node
        self.tmpn = 0
        self.pre = []
        self.loopn = 0
        self.try_stack = []
        self.rules = collections.Counter()
        self.loop_nodes = {}
        self.local_names = {}
        self.lambda_bodies = {}
        self.callees = set()
        self.is_method = node['kind'] == 'CXXMethodDecl' and not any(
            d.get('storageClass') == 'static' for d in [node] + prog.fn_decls.get(node.get('_q'), []))
        self.owner = None
        if node['kind'] == 'CXXMethodDecl':
            q = node['_q']
            self.owner = q.rsplit('::', 1)[0]
            if self.is_method and hasattr(unit, 'opaque_record') and '<lambda>' not in q and unit.opaque_record(self.owner):
                self.is_method = False        # `this` of an unrepresentable class is dropped
                self.opaque_owner = True

    # -- helpers -----------------------------------------------------------------------------------
    def T(self, node):
        return self.P.typeof(node)

    def tmp(self, prefix='t'):
        self.tmpn += 1
        return '__%s%d' % (prefix, self.tmpn)

    def hit(self, rule):
        self.rules[rule] += 1

    def ctype(self, t):
        self.U.need_type(t)
        return cname(t)

    def decl(self, t, name):
        if t[0] == 'arr':
            return '%s %s[%d]' % (self.ctype(t[1]), name, t[2])
        return '%s %s' % (self.ctype(t), name)

    def propagate(self):
        if self.try_stack:
            return 'goto %s;' % self.try_stack[-1]
        return 'return%s;' % self.zero_ret()

    def zero_ret(self):
        rt = self.ret_t
        if rt[0] == 'void':
            return ''
        if rt[0] in ('int', 'bool', 'double', 'float', 'enum'):
            return ' 0'
        if rt[0] == 'ptr':
            return ' 0'
        return ' (%s){0}' % self.ctype(rt)

    def after_call(self, maythrow):
        if maythrow:
            self.pre.append('if (verif_exc) { %s }' % self.propagate())

    # -- function ----------------------------------------------------------------------------------
    def signature(self):
        """C parameter list [(name, type, is_ref_or_self)] and return type; honours a slice request."""
        n = self.node
        self.ret_t = self.P.tp.parse(self._ret_type_string(n))
        ps = []
        body = [c for c in n.get('inner', []) or [] if c.get('kind') == 'CompoundStmt']
        sl = self.U.slice_for(self.key) if hasattr(self.U, 'slice_for') else None
        self.slice_stmts = None
        if re.search(r'#loop\d+$', self.key) and body:
            return self.loop_body_signature(n, body[0])
        if sl and body:
            stmts = [c for c in body[0].get('inner', []) or []]

            def locate(sel):
                """<Kind> or <Kind>#n: the n-th (0-based) top-level statement of that AST kind"""
                kind, _, nth = sel.partition('#')
                hits = [i for i, c in enumerate(stmts) if c.get('kind') == kind]
                n_ = int(nth) if nth else 0
                if n_ >= len(hits):
                    raise Unsupported('slice: no top-level %s in %s' % (sel, self.key))
                return hits[n_]
            if '..' in sl:
                a_, b_ = sl.split('..')
                lo_, hi_ = locate(a_), locate(b_)
                self.slice_stmts = stmts[lo_:hi_ + 1]
                self.slice_is_range = True
            else:
                lo_ = locate(sl)
                self.slice_stmts = stmts[lo_:]
            idx = [lo_]
            inside = set()
            for st in self.slice_stmts:
                for x in astload.walk(st):
                    if x.get('kind') in ('VarDecl', 'ParmVarDecl'):
                        inside.add(x['id'])
            decls = {}
            for c in n.get('inner', []) or []:
                if c.get('kind') == 'ParmVarDecl':
                    decls[c['id']] = c
            for st in stmts[:idx[0]]:
                for x in astload.walk(st):
                    if x.get('kind') == 'VarDecl':
                        decls[x['id']] = x
            seen = []
            for st in self.slice_stmts:
                for x in astload.walk(st):
                    if x.get('kind') == 'DeclRefExpr' and x['referencedDecl']['id'] in decls and x['referencedDecl']['id'] not in inside:
                        if x['referencedDecl']['id'] not in seen:
                            seen.append(x['referencedDecl']['id'])
            for rid in seen:
                d = decls[rid]
                t = strip_ref(self.T(d))
                if t[0] == 'opaque':
                    self.local_names[rid] = (d['name'], t)   # may only be passed to an external that drops it
                    continue
                self.local_names[rid] = (d['name'], t)
                ps.append((d['name'], t, False))
            if getattr(self, 'slice_is_range', False):
                self.ret_t = ('void',)
            return ps
        if self.is_method:
            ps.append(('self', ('ptr', ('rec', self.owner)), True))
        for c in n.get('inner', []) or []:
            if c.get('kind') == 'ParmVarDecl':
                pt = self.T(c)
                nm = c.get('name') or 'p%d' % len(ps)
                self.local_names[c['id']] = (nm, pt)
                ps.append((nm, ('ptr', pt[1]) if pt[0] == 'ref' else pt, pt[0] == 'ref'))
        return ps

    def loop_body_signature(self, n, body):
        """<fn>#loop<k>: the body of loop k as a function of its free variables, all passed by address (in/out), so that
        a contract can speak about one arbitrary iteration"""
        k = int(self.key.rsplit('#loop', 1)[1])
        base_key = self.key.rsplit('#loop', 1)[0]
        from .unit import Unit as _Unit
        probe = FnTranslator(self.P, _Unit(self.P, 'modular'), base_key, n)   # throwaway unit: no contracts, no side effects
        probe.translate()                       # dry run: fixes the loop numbering exactly as the full translation does
        if k not in probe.loop_nodes:
            raise Unsupported('%s has no loop %d' % (base_key, k))
        loop = probe.loop_nodes[k]
        kind = loop['kind']
        if kind == 'CXXForRangeStmt':
            stmts = [loop['inner'][-1]]
        elif kind == 'ForStmt':
            stmts = [loop['inner'][4]]
        elif kind == 'WhileStmt':
            stmts = [loop['inner'][-1]]
        elif kind == 'DoStmt':
            stmts = [loop['inner'][0]]
        elif kind == 'CallExpr':
            # std::accumulate / std::find_if: the "body" is the lambda that is applied to each element
            lam = self._find(loop, 'LambdaExpr')
            rec = lam['inner'][0]
            op = [c for c in rec['inner'] if c.get('kind') == 'CXXMethodDecl' and c.get('name') == 'operator()'][0]
            caps = [c for c in rec['inner'] if c.get('kind') == 'FieldDecl']
            if caps:
                raise Unsupported('body slice of a lambda with captures')
            op['_q'] = self.key
            self.node = op
            self.is_method = False
            self.owner = None
            self.ret_t = self.P.tp.parse(self._ret_type_string(op))
            ps = []
            for c in op.get('inner', []) or []:
                if c.get('kind') == 'ParmVarDecl':
                    pt = self.T(c)
                    self.local_names[c['id']] = (c['name'], pt)
                    ps.append((c['name'], ('ptr', pt[1]) if pt[0] == 'ref' else pt, pt[0] == 'ref'))
            return ps
        else:
            raise Unsupported('body slice of a %s loop' % kind)
        self.slice_stmts = stmts
        self.ret_t = ('void',)
        self.outer_ret_t = self.P.tp.parse(self._ret_type_string(n))
        inside = set()
        for st in stmts:
            for x in astload.walk(st):
                if x.get('kind') in ('VarDecl', 'ParmVarDecl'):
                    inside.add(x['id'])
        decls = {}
        for x in astload.walk(n):
            if x.get('kind') in ('VarDecl', 'ParmVarDecl') and x['id'] not in inside:
                decls[x['id']] = x
        seen, ps = [], []
        uses_this = False
        for st in stmts:
            for x in astload.walk(st):
                if x.get('kind') == 'CXXThisExpr':
                    uses_this = True
                if x.get('kind') == 'DeclRefExpr' and x['referencedDecl']['id'] in decls and x['referencedDecl']['id'] not in seen:
                    seen.append(x['referencedDecl']['id'])
        if uses_this and self.is_method:
            ps.append(('self', ('ptr', ('rec', self.owner)), True))
        for rid in seen:
            d = decls[rid]
            t = self.T(d)
            if strip_ref(t)[0] == 'opaque':
                self.local_names[rid] = (d['name'], t)
                continue
            self.local_names[rid] = (d['name'], ('ref', strip_ref(t)))
            ps.append((d['name'], ('ptr', strip_ref(t)), True))
        return ps

    def translate(self):
        ps = self.signature()
        n = self.node          # (a lambda body slice switches the node to the lambda's operator())
        self.param_names = [(nm, self.local_names_type(nm)) for nm, _, _ in ps if nm != 'self']
        params = []
        for nm, t, isref in ps:
            params.append('%s* %s' % (self.ctype(t[1]), nm) if isref else self.decl(t, nm))
        body = [c for c in n.get('inner', []) or [] if c.get('kind') == 'CompoundStmt']
        if not body:
            raise Unsupported('function %s has no body' % self.key)
        self.cname_ = self.U.fn_cname(self.key)
        if self.slice_stmts is not None:
            self.hit('slice')
            lines = ['{'] + ['  ' + l for st in self.slice_stmts for l in self.stmt(st)] + ['}']
        else:
            lines = self.stmt(body[0], top=True)
        rett = 'void' if self.ret_t[0] == 'void' else self.ctype(self.ret_t)
        head = '%s %s(%s)' % (rett, self.cname_, ', '.join(params) if params else 'void')
        self.signature_text = head
        return head, lines

    def local_names_type(self, nm):
        for rid, (n_, t) in self.local_names.items():
            if n_ == nm:
                return t
        return None

    def _ret_type_string(self, n):
        qt = n['type'].get('desugaredQualType', n['type']['qualType']).replace('(anonymous namespace)', 'ANON_NS_').replace('(anonymous)', 'ANON_NS_')
        # "RET (ARGS) const noexcept": cut at the top-level '(' that opens the parameter list
        depth = 0
        for i, ch in enumerate(qt):
            if ch == '<':
                depth += 1
            elif ch == '>':
                depth -= 1
            elif ch == '(' and depth == 0:
                return qt[:i].strip()
        raise Unsupported('cannot find return type in %r' % qt)

    def _is_const_method(self, n):
        return bool(re.search(r'\)\s*const', n['type']['qualType']))

    # -- statements --------------------------------------------------------------------------------
    def flush(self):
        p, self.pre = self.pre, []
        return p

    def stmt(self, n, top=False):
        k = n['kind']
        self.hit(k)
        m = getattr(self, 's_' + k, None)
        if m is None:
            if k.endswith('Expr') or k.endswith('Operator') or k in ('ExprWithCleanups',):
                e = self.ex(n, discard=True)
                out = self.flush()
                if e:
                    out.append('(void)(%s);' % e if not self._has_effect(e) else e + ';')
                return out
            raise Unsupported('no statement rule for %s in %s' % (k, self.key))
        try:
            return m(n)
        except Unsupported as e:
            if ' @line ' not in str(e):
                ln = n.get('range', {}).get('begin', {}).get('line') or n.get('loc', {}).get('line')
                raise Unsupported('%s  [in %s @line %s, stmt %s]' % (e, self.key, ln, k))
            raise

    def _has_effect(self, e):
        return True

    def block(self, n):
        lines = self.stmt(n)
        if n['kind'] == 'CompoundStmt':
            return lines
        return ['{'] + ['  ' + l for l in lines] + ['}']

    def s_CompoundStmt(self, n):
        out = ['{']
        for c in n.get('inner', []) or []:
            out += ['  ' + l for l in self.stmt(c)]
        out.append('}')
        return out

    def s_NullStmt(self, n):
        return [';']

    def s_DeclStmt(self, n):
        out = []
        for c in n.get('inner', []) or []:
            if c['kind'] == 'VarDecl':
                out += self.vardecl(c)
            elif c['kind'] in ('TypeAliasDecl', 'TypedefDecl', 'UsingDecl', 'StaticAssertDecl'):
                continue
            else:
                raise Unsupported('DeclStmt of %s' % c['kind'])
        return out

    def vardecl(self, c):
        t = self.T(c)
        nm = c['name']
        # avoid clashes between a C++ shadowing declaration and C (same name, inner scope is fine in C too)
        self.local_names[c['id']] = (nm, t)
        inits = [x for x in c.get('inner', []) or [] if 'kind' in x and not x['kind'].endswith('Attr')]
        out = []
        if t[0] == 'ref':
            if not inits:
                raise Unsupported('reference without initialiser')
            a = self.addr(inits[0])
            out += self.flush()
            out.append('%s* %s = %s;' % (self.ctype(t[1]), nm, a))
            return out
        if t[0] == 'rec' and self.U.mode == 'modular' and hasattr(self.U, 'opaque_record') and self.U.opaque_record(t[1]) and t[1].endswith('sqlite_transaction'):
            # RAII transaction guard over the SQL connection: outside the translatable subset (C14 is not claimed);
            # the object is dropped, calls on it go to contract stubs without receiver
            self.local_names[c['id']] = (nm, ('opaque', t[1]))
            self.hit('opaque-local(dropped):sqlite_transaction')
            return ['/* %s %s: opaque RAII object dropped */' % (t[1], nm)]
        if t[0] == 'opaque':
            # lambdas stored in a local (make_err_message) and similar: remember, emit nothing
            if inits and self._find(inits[0], 'LambdaExpr'):
                self.lambda_bodies[c['id']] = self._find(inits[0], 'LambdaExpr')
                self.hit('lambda-local(dropped)')
                return []
            if self.U.mode == 'modular' and (not inits or inits[0]['kind'] in ('CXXConstructExpr', 'CXXTemporaryObjectExpr', 'ExprWithCleanups')) and 'sqlite_transaction' in t[1]:
                # RAII transaction guard over the SQL connection: outside the translatable subset (C14 is not claimed);
                # the object is dropped, calls on it go to contract stubs without receiver
                self.local_names[c['id']] = (nm, t)
                self.hit('opaque-local(dropped):sqlite_transaction')
                return ['/* %s %s: opaque RAII object dropped */' % (t[1], nm)]
            raise Unsupported('local of opaque type %s in %s' % (t[1], self.key))
        if not inits:
            out.append(self.decl(t, nm) + ';')
            return out
        i0 = inits[0]
        if i0['kind'] == 'CXXConstructExpr' and not [x for x in i0.get('inner', []) or [] if x] and not i0.get('zeroing') and not i0.get('list') and self.default_value(t) is None:
            out.append(self.decl(t, nm) + ';   /* default-initialised: indeterminate */')
            return out
        e = self.init_value(inits[0], t)
        out += self.flush()
        if t[0] == 'arr':
            raise Unsupported('array with initialiser')
        out.append('%s = %s;' % (self.decl(t, nm), e))
        return out

    def init_value(self, n, t):
        """Expression initialising an object of type t (handles copy vs move vs default)."""
        return self.rvalue_for(n, t)

    def s_ReturnStmt(self, n):
        inner = [x for x in n.get('inner', []) or []]
        if not inner:
            return self.flush() + ['return;']
        g = self.ghost('before_return')
        if getattr(self, 'outer_ret_t', None) is not None:
            raise Unsupported('return with a value inside a loop body slice')
        e = self.rvalue_for(inner[0], self.ret_t)
        return g + self.flush() + self.ghost('at_return') + ['return %s;' % e]

    def s_IfStmt(self, n):
        inner = n['inner']
        if n.get('hasInit') or n.get('hasVar'):
            raise Unsupported('if with init/var')
        cond = self.cond(inner[0])
        out = self.flush()
        out.append('if (%s)' % cond)
        out += self.block_braced(inner[1])
        if len(inner) > 2 and inner[2]:
            out.append('else')
            out += self.block_braced(inner[2])
        return out

    def block_braced(self, n):
        lines = self.stmt(n)
        if n['kind'] == 'CompoundStmt':
            return lines
        return ['{'] + ['  ' + l for l in lines] + ['}']

    def cond(self, n):
        e = self.ex(n)
        return e

    def loop_annot(self, node=None):
        k = self.loopn
        self.loopn += 1
        if node is not None:
            self.loop_nodes[k] = node
        return k, self.U.loop_contract(self.key, k)

    LOOP_KINDS = ('ForStmt', 'WhileStmt', 'DoStmt', 'CXXForRangeStmt')

    def count_loops(self, node):
        """number of loops (in the translator's sense) inside an AST subtree"""
        c = 0
        for x in astload.walk(node):
            if x.get('kind') in self.LOOP_KINDS:
                c += 1
            elif x.get('kind') == 'CallExpr':
                try:
                    if self._callee_name(x) in ('accumulate', 'find_if') and self._is_std_callee(x):
                        c += 1
                except Exception:
                    pass
        return c

    def summarised(self, n, placeholders=None):
        """loop<k>.summary in the contract: the loop statement is replaced by the summary (its per-iteration facts are
        proved on the body slice <fn>#loop<k>; the step from those to the summary is the sequencing lemma)"""
        k = self.loopn
        summ = self.U.loop_summary(self.key, k) if hasattr(self.U, 'loop_summary') else None
        if summ is None:
            return None
        self.loop_nodes[k] = n
        self.loopn += self.count_loops(n)     # the loop itself and everything nested in it
        self.hit('loop-summarised')
        for a, b in (placeholders or {}).items():
            summ = summ.replace(a, b)
        return ['/* loop %d replaced by its summary (see contract) */' % k, '{', '  ' + summ, '}']

    def s_ForStmt(self, n):
        init, condvar, cond, inc, body = n['inner']
        sm = self.summarised(n)
        if sm is not None:
            return (['{'] + ['  ' + l for l in (self.stmt(init) if init else [])] + ['  ' + l for l in sm] + ['}'])
        k, annot = self.loop_annot(n)
        out = ['{']
        if init:
            out += ['  ' + l for l in self.stmt(init)]
        c = self.ex(cond) if cond else '1'
        if self.pre:
            raise Unsupported('loop condition needs hoisting in %s' % self.key)
        i = self.ex(inc, discard=True) if inc else ''
        if self.pre:
            raise Unsupported('loop increment needs hoisting in %s' % self.key)
        out += ['  ' + g for g in self.ghost('before_loop%d' % k)]
        out.append('  for (; %s; %s) /* loop %d */' % (c, i, k))
        out += ['  ' + a for a in annot]
        out += ['  ' + l for l in self.reach(self.with_body_ghost(self.block_braced(body), k), k, annot)]
        out += ['  ' + g for g in self.ghost('after_loop%d' % k)]
        out.append('}')
        return out

    def with_body_ghost(self, body_lines, k):
        """ghost statements at the start and the end of a loop body (contracts: at.loop<k>_body_start / _body_end)"""
        a, b = self.ghost('loop%d_body_start' % k), self.ghost('loop%d_body_end' % k)
        if not a and not b:
            return body_lines
        assert body_lines[0].strip() == '{' and body_lines[-1].strip() == '}'
        return [body_lines[0]] + ['  ' + x for x in a] + body_lines[1:-1] + ['  ' + x for x in b] + [body_lines[-1]]

    def s_WhileStmt(self, n):
        inner = n['inner']
        cond, body = inner[0], inner[-1]
        sm = self.summarised(n)
        if sm is not None:
            return sm
        k, annot = self.loop_annot(n)
        c = self.ex(cond)
        if self.pre:
            raise Unsupported('loop condition needs hoisting in %s' % self.key)
        out = self.ghost('before_loop%d' % k) + ['while (%s) /* loop %d */' % (c, k)] + annot + self.reach(self.with_body_ghost(self.block_braced(body), k), k, annot) + self.ghost('after_loop%d' % k)
        return out

    def ghost(self, where):
        g = self.U.ghost(self.key, where) if hasattr(self.U, 'ghost') else []
        return list(g)

    def reach(self, body_lines, k, annot):
        """anti-vacuity: a contracted loop body starts with a marker that must be reachable (expected to FAIL)"""
        if not annot:
            return body_lines
        assert body_lines[0].strip() == '{'
        return [body_lines[0], '  VERIF_REACH("vacuity: body of loop %d is reachable under its invariant");' % k] + body_lines[1:]

    def s_DoStmt(self, n):
        """do S while (c);  ->  { _Bool first = 1; while (first || c) { first = 0; S } }
        (cbmc's loop-contract instrumentation rejects do/while; `continue` still reaches the evaluation of c)"""
        body, cond = n['inner']
        sm = self.summarised(n)
        if sm is not None:
            return sm
        k, annot = self.loop_annot(n)
        b = self.block_braced(body)
        c = self.ex(cond)
        if self.pre:
            raise Unsupported('loop condition needs hoisting in %s' % self.key)
        f = '__first%d' % k
        out = ['{', '  _Bool %s = 1;' % f, '  while (%s || %s) /* loop %d (do-while) */' % (f, c, k)]
        out += ['  ' + a.replace('\\first', f) for a in annot]
        out += ['  {', '    %s = 0;' % f] + (['    VERIF_REACH("vacuity: body of loop %d is reachable under its invariant");' % k] if annot else []) + ['    ' + l for l in b] + ['  }', '}']
        return out

    def s_CXXForRangeStmt(self, n):
        inner = n['inner']
        # [init, range decl, begin decl, end decl, cond, inc, loop var decl, body]
        rng_decl = inner[1]
        var_decl = inner[-2]
        body = inner[-1]
        rv = [x for x in astload.walk(rng_decl) if x.get('kind') == 'VarDecl'][0]
        rinit = [x for x in rv.get('inner', []) if 'kind' in x][0]
        rt = strip_ref(self.T(rinit)) if 'type' in rinit else None
        cont = self.addr(rinit)
        if hasattr(self.U, 'loop_summary') and self.U.loop_summary(self.key, self.loopn) is not None:
            k0 = self.loopn
            self.U.need_type(rt)
            pre = self.flush()
            sm = self.summarised(n, {'\\range': '__r%d' % k0})
            return ['{'] + ['  ' + l for l in pre] + ['  %s* __r%d = %s;' % (self.ctype(rt), k0, cont)] + ['  ' + l for l in sm] + ['}']
        k, annot = self.loop_annot(n)
        out = ['{'] + ['  ' + l for l in self.flush()]
        vd = [x for x in astload.walk(var_decl) if x.get('kind') == 'VarDecl'][0]
        vt = self.T(vd)
        idx = '__i%d' % k
        cvar = '__r%d' % k
        self.U.need_type(rt)
        out.append('  %s* %s = %s;' % (self.ctype(rt), cvar, cont))
        if rt[0] == 'vec':
            et = rt[1]
        elif rt[0] == 'str':
            et = ('int', 8, True)
        else:
            raise Unsupported('range-for over %r' % (rt,))
        self.local_names[vd['id']] = (vd['name'], vt)
        def sub_(x):
            return x.replace('\\idx', idx).replace('\\range', cvar)
        out += ['  ' + sub_(g) for g in self.ghost('before_loop%d' % k)]
        out.append('  for (size_t %s = 0; %s < %s->size; ++%s) /* loop %d */' % (idx, idx, cvar, idx, k))
        out += ['  ' + sub_(a) for a in annot]
        out.append('  {')
        if annot:
            out.append('    VERIF_REACH("vacuity: body of loop %d is reachable under its invariant");' % k)
        if vt[0] == 'ref':
            out.append('    %s* %s = &%s->data[%s];' % (self.ctype(vt[1]), vd['name'], cvar, idx))
        else:
            if is_owning(vt, self.P_records()):
                out.append('    %s %s = %s(&%s->data[%s]);' % (self.ctype(vt), vd['name'], self.U.copy_fn(vt), cvar, idx))
            else:
                out.append('    %s %s = %s->data[%s];' % (self.ctype(vt), vd['name'], cvar, idx))
        out += ['    ' + sub_(g) for g in self.ghost('loop%d_body_start' % k)]
        out += ['    ' + l for l in self.block_braced(body)]
        out += ['    ' + sub_(g) for g in self.ghost('loop%d_body_end' % k)]
        out.append('  }')
        out += ['  ' + sub_(g) for g in self.ghost('after_loop%d' % k)]
        out.append('}')
        return out

    def P_records(self):
        return self.U.rec_types

    def s_SwitchStmt(self, n):
        inner = n['inner']
        cond, body = inner[0], inner[-1]
        c = self.ex(cond)
        out = self.flush()
        out.append('switch (%s)' % c)
        out += self.block_braced(body)
        return out

    def s_CaseStmt(self, n):
        inner = [x for x in n['inner'] if x]
        v = self.ex(inner[0])
        out = ['case %s:' % v]
        out += self.stmt(inner[-1])
        return out

    def s_DefaultStmt(self, n):
        return ['default:'] + self.stmt(n['inner'][-1])

    def s_BreakStmt(self, n):
        return ['break;']

    def s_ContinueStmt(self, n):
        return ['continue;']

    def s_CXXTryStmt(self, n):
        inner = n['inner']
        body, handlers = inner[0], inner[1:]
        lbl = self.tmp('catch')
        end = self.tmp('endtry')
        self.try_stack.append(lbl)
        out = self.block_braced(body)
        self.try_stack.pop()
        out.append('goto %s;' % end)
        out.append('%s: ;' % lbl)
        for h in handlers:
            hin = h['inner']
            decl, hbody = hin[0], hin[-1]
            if decl and decl.get('kind') == 'VarDecl':
                et = decl['type'].get('desugaredQualType', decl['type']['qualType'])
                et = re.sub(r'\bconst\b|&', '', et).strip()
                q = et if et in self.P.exc_parent else (self.P.tp.resolve(et) or et)
                if q not in self.P.exc_parent:
                    raise Unsupported('catch of unknown exception type %s' % et)
                self.U.need_exc(q)
                out.append('if (verif_exc_isa(verif_exc, %s))' % exc_cname(q))
            else:
                out.append('if (1) /* catch (...) */')
            out.append('{')
            out.append('  verif_exc = 0;')
            out += ['  ' + l for l in self.block_braced(hbody)]
            out.append('  goto %s;' % end)
            out.append('}')
        out.append('{ %s }' % self.propagate())
        out.append('%s: ;' % end)
        return out

    # -- expressions -------------------------------------------------------------------------------
    def ex(self, n, discard=False):
        k = n['kind']
        self.hit(k)
        m = getattr(self, 'e_' + k, None)
        if m is None:
            raise Unsupported('no expression rule for %s in %s' % (k, self.key))
        if k in ('CallExpr', 'CXXMemberCallExpr', 'CXXOperatorCallExpr', 'CXXThrowExpr', 'ExprWithCleanups',
                 'ImplicitCastExpr', 'ParenExpr', 'CXXConstructExpr', 'MaterializeTemporaryExpr', 'CXXBindTemporaryExpr',
                 'CXXFunctionalCastExpr', 'CXXStaticCastExpr', 'CStyleCastExpr'):
            return m(n, discard)
        return m(n)

    def _find(self, n, kind):
        for x in astload.walk(n):
            if x.get('kind') == kind:
                return x
        return None

    def only(self, n):
        inner = [x for x in n.get('inner', []) or [] if x]
        if len(inner) != 1:
            raise Unsupported('%s with %d children' % (n['kind'], len(inner)))
        return inner[0]

    def e_ExprWithCleanups(self, n, discard=False):
        return self.ex(self.only(n), discard) if self.only(n)['kind'] in self._DISCARDABLE else self.ex(self.only(n))

    _DISCARDABLE = ('CallExpr', 'CXXMemberCallExpr', 'CXXOperatorCallExpr', 'CXXThrowExpr', 'ExprWithCleanups',
                    'ImplicitCastExpr', 'ParenExpr', 'CXXConstructExpr', 'MaterializeTemporaryExpr', 'CXXBindTemporaryExpr',
                    'CXXFunctionalCastExpr', 'CXXStaticCastExpr', 'CStyleCastExpr')

    def sub(self, n, discard=False):
        if n['kind'] in self._DISCARDABLE:
            return self.ex(n, discard)
        return self.ex(n)

    def e_ParenExpr(self, n, discard=False):
        return '(%s)' % self.sub(self.only(n), discard)

    def e_ConstantExpr(self, n):
        return self.ex(self.only(n))

    def e_MaterializeTemporaryExpr(self, n, discard=False):
        return self.sub(self.only(n), discard)

    def e_CXXBindTemporaryExpr(self, n, discard=False):
        return self.sub(self.only(n), discard)

    def e_IntegerLiteral(self, n):
        t = self.T(n)
        v = n['value']
        suf = ''
        if t[0] == 'int':
            if t[1] == 64:
                suf = 'L' if t[2] else 'UL'
            elif not t[2]:
                suf = 'U'
        return v + suf

    def e_FloatingLiteral(self, n):
        v = n['value']
        if re.fullmatch(r'-?\d+', v):
            v += '.0'
        return v

    def e_CXXBoolLiteralExpr(self, n):
        return '1' if n['value'] else '0'

    def e_CXXNullPtrLiteralExpr(self, n):
        return '0'

    def e_GNUNullExpr(self, n):
        return '0'

    def e_CharacterLiteral(self, n):
        return str(n['value'])

    def e_StringLiteral(self, n):
        # only reachable where a std::string is built from it
        return n['value']

    def e_CXXThisExpr(self, n):
        if getattr(self, 'opaque_owner', False):
            self.hit('opaque-this(null handle)')
            return '0'        # `this` of an unrepresentable class: only ever handed to contract stubs, never dereferenced
        return 'self'

    def e_DeclRefExpr(self, n):
        rd = n['referencedDecl']
        rid = rd['id']
        if rid in self.local_names:
            nm, t = self.local_names[rid]
            return '(*%s)' % nm if t[0] == 'ref' else nm
        if rd['kind'] == 'EnumConstantDecl':
            node, q = self.P.by_id.get(rid, (None, None))
            if q is None:
                raise Unsupported('enum constant %s outside djinterop' % rd.get('name'))
            enum_q = q.rsplit('::', 1)[0]
            self.U.need_type(('enum', enum_q))
            return mangle(q)
        if rd['kind'] == 'VarDecl':
            if rid in self.P.globals:
                q, node = self.P.globals[rid]
                return self.U.global_const(q, node, self)
            nm = rd.get('name')
            if nm == 'nullopt':
                return '/*nullopt*/'
            if nm == 'ignore':
                return '/*ignore*/'
            vd = self.P.find_local_const(rid)
            if vd is not None:
                # a function-local static/constexpr constant referenced from a lambda (no capture needed): its initialiser
                t = self.P.typeof(vd)
                inits = [x for x in vd.get('inner', []) or [] if 'kind' in x and not x['kind'].endswith('Attr')]
                if inits and t[0] in ('int', 'double', 'bool', 'float', 'enum'):
                    self.hit('local-constant(inlined)')
                    return '((%s)%s)' % (self.ctype(t), self._paren(self.ex(inits[0])))
            raise Unsupported('reference to external variable %s' % nm)
        if rd['kind'] in ('FunctionDecl', 'CXXMethodDecl'):
            return '/*fn:%s*/' % rd.get('name')
        raise Unsupported('DeclRefExpr to %s %s' % (rd['kind'], rd.get('name')))

    def e_MemberExpr(self, n):
        base = self.only(n)
        bt = strip_ref(self.T(base))
        name = n['name']
        if n.get('isArrow'):
            if bt[0] == 'ptr':
                b = self.ex(base)
                return '%s->%s' % (self._paren(b), name)
            raise Unsupported('-> on non-pointer %r' % (bt,))
        if bt[0] == 'pair':
            return '%s.%s' % (self._paren(self.lv(base)), name)
        if bt[0] not in ('rec', 'ext'):
            raise Unsupported('member %s of %r' % (name, bt))
        b = self.lv(base)
        if b.startswith('(*') and b.endswith(')') and re.fullmatch(r'\(\*[A-Za-z_0-9]+\)', b):
            return '%s->%s' % (b[2:-1], name)
        return '%s.%s' % (self._paren(b), name)

    def _paren(self, s):
        return s if re.fullmatch(r'[A-Za-z_][A-Za-z_0-9]*(\.[A-Za-z_0-9]+|->[A-Za-z_0-9]+|\[[A-Za-z_0-9]+\])*', s) else '(%s)' % s

    def lv(self, n):
        """C lvalue text of a glvalue expression; temporaries are materialised into a fresh local."""
        k = n['kind']
        if k in ('DeclRefExpr', 'MemberExpr', 'ArraySubscriptExpr'):
            return self.ex(n)
        if k == 'UnaryOperator' and n['opcode'] == '*':
            return self.ex(n)
        if k in ('ImplicitCastExpr',) and n.get('castKind') in ('NoOp', 'DerivedToBase', 'UncheckedDerivedToBase'):
            return self.lv(self.only(n))
        if k in ('ParenExpr',):
            return self.lv(self.only(n))
        if k in ('MaterializeTemporaryExpr', 'ExprWithCleanups', 'CXXBindTemporaryExpr'):
            inner = self.only(n)
            if inner['kind'] in ('MaterializeTemporaryExpr', 'ExprWithCleanups', 'CXXBindTemporaryExpr'):
                return self.lv(inner)
            if n.get('valueCategory') == 'lvalue' and inner.get('valueCategory') == 'lvalue':
                return self.lv(inner)
            t = strip_ref(self.T(n))
            v = self.rvalue_for(inner, t)
            tn = self.tmp()
            self.pre.append('%s = %s;' % (self.decl(t, tn), v))
            return tn
        if k == 'CallExpr' and self._callee_name(n) in ('move', 'forward') and self._is_std_callee(n):
            return self.lv(n['inner'][1])
        if k in ('CXXOperatorCallExpr', 'CXXMemberCallExpr', 'CallExpr'):
            t = self.T(n)
            if n.get('valueCategory') in ('lvalue', 'xvalue'):
                # call returning a reference: the model returns a pointer
                e = self.call_ref(n)
                return '(*%s)' % e
            v = self.ex(n)
            tn = self.tmp()
            self.pre.append('%s = %s;' % (self.decl(strip_ref(t), tn), v))
            return tn
        if n.get('valueCategory') == 'prvalue':
            t = strip_ref(self.T(n))
            v = self.rvalue_for(n, t)
            tn = self.tmp()
            self.pre.append('%s = %s;' % (self.decl(t, tn), v))
            return tn
        raise Unsupported('lvalue of %s in %s' % (k, self.key))

    def addr(self, n):
        l = self.lv(n)
        m = re.fullmatch(r'\(\*([A-Za-z_0-9]+)\)', l)
        if m:
            return m.group(1)
        return '(&%s)' % self._paren(l)

    def e_ArraySubscriptExpr(self, n):
        a, i = n['inner']
        return '%s[%s]' % (self._paren(self.ex(a)), self.ex(i))

    def e_UnaryOperator(self, n):
        op = n['opcode']
        a = self.only(n)
        if op in ('++', '--'):
            l = self.lv(a)
            return ('%s%s' % (l, op)) if n.get('isPostfix') else ('%s%s' % (op, l))
        if op == '&':
            return self.addr(a)
        if op == '*':
            return '(*%s)' % self._paren(self.ex(a))
        if op in ('-', '+', '!', '~'):
            t = self.T(n)
            e = self.ex(a)
            if op == '-' and t[0] == 'int' and t[2]:
                self.U.need_model('arith')
            return '(%s%s)' % (op, self._paren(e))
        raise Unsupported('unary %s' % op)

    def e_BinaryOperator(self, n):
        op = n['opcode']
        a, b = n['inner']
        if op == '=':
            lt = strip_ref(self.T(a))
            l = self.lv(a)
            r = self.rvalue_for(b, lt)
            return '%s = %s' % (l, r)
        if op == ',':
            raise Unsupported('comma operator')
        if op in ('&&', '||'):
            ea = self.ex(a)
            save = self.pre
            self.pre = []
            eb = self.ex(b)
            if self.pre:
                raise Unsupported('may-throw call under short-circuit evaluation in %s' % self.key)
            self.pre = save
            return '(%s %s %s)' % (ea, op, eb)
        ea, eb = self.ex(a), self.ex(b)
        t = self.T(n)
        if op == '<<' and t[0] == 'int' and t[2]:
            self.U.need_model('arith')
            return 'verif_shl_s%d(%s, %s)' % (t[1], ea, eb)
        return '(%s %s %s)' % (ea, op, eb)

    def e_CompoundAssignOperator(self, n):
        a, b = n['inner']
        op = n['opcode']
        lt = strip_ref(self.T(a))
        ct = n.get('computeLHSType', {}).get('desugaredQualType') or n.get('computeLHSType', {}).get('qualType')
        l = self.lv(a)
        r = self.ex(b)
        if ct and lt[0] != 'ptr':
            cty = self.P.tp.parse(ct)
            if cty != lt:
                # x op= y  ==  x = (T)((CT)x op y) with x evaluated once (l is side-effect free here)
                return '%s = (%s)((%s)%s %s %s)' % (l, self.ctype(lt), self.ctype(cty), l, op[:-1], r)
        return '%s %s %s' % (l, op, r)

    def e_ConditionalOperator(self, n):
        c, a, b = n['inner']
        t = strip_ref(self.T(n))
        ec = self.ex(c)
        save = self.pre
        self.pre = []
        ea = self.rvalue_for(a, t) if n.get('valueCategory') == 'prvalue' else self.ex(a)
        pa, self.pre = self.pre, []
        eb = self.rvalue_for(b, t) if n.get('valueCategory') == 'prvalue' else self.ex(b)
        pb, self.pre = self.pre, save
        if pa or pb:
            tn = self.tmp()
            self.pre.append('%s;' % self.decl(t, tn))
            self.pre.append('if (%s) { %s %s = %s; } else { %s %s = %s; }' % (ec, ' '.join(pa), tn, ea, ' '.join(pb), tn, eb))
            return tn
        return '(%s ? %s : %s)' % (ec, ea, eb)

    # casts ---------------------------------------------------------------------------------------
    def cast(self, n, discard=False):
        ck = n.get('castKind')
        a = self.only(n)
        self.hit('cast:' + str(ck))
        if ck in ('LValueToRValue', 'NoOp', 'ArrayToPointerDecay', 'FunctionToPointerDecay', 'ConstructorConversion',
                  'UserDefinedConversion', 'DerivedToBase', 'UncheckedDerivedToBase'):
            return self.sub(a, discard)
        if ck == 'NullToPointer':
            return '0'
        t = self.T(n)
        if ck == 'ToVoid':
            return '(void)(%s)' % self.sub(a, True)
        e = self.ex(a)
        if ck in ('IntegralCast', 'IntegralToFloating', 'FloatingCast', 'BooleanToSignedIntegral'):
            return '((%s)%s)' % (self.ctype(t), self._paren(e))
        if ck == 'FloatingToIntegral':
            self.U.need_model('arith')
            st = 's' if t[2] else 'u'
            return 'verif_f2%s%d(%s)' % (st, t[1], e)
        if ck in ('IntegralToBoolean', 'FloatingToBoolean', 'PointerToBoolean'):
            return '(%s != 0)' % self._paren(e)
        if ck == 'BitCast':
            return '((%s)%s)' % (self.ctype(t), self._paren(e))
        if ck == 'NullToPointer':
            return '((%s)0)' % self.ctype(t)
        raise Unsupported('cast kind %s in %s' % (ck, self.key))

    def e_ImplicitCastExpr(self, n, discard=False):
        return self.cast(n, discard)

    def e_CXXStaticCastExpr(self, n, discard=False):
        return self.cast(n, discard)

    def e_CStyleCastExpr(self, n, discard=False):
        return self.cast(n, discard)

    def e_CXXFunctionalCastExpr(self, n, discard=False):
        return self.cast(n, discard)

    def e_CXXReinterpretCastExpr(self, n):
        t = self.T(n)
        return '((%s)%s)' % (self.ctype(t), self._paren(self.ex(self.only(n))))

    def e_CXXConstCastExpr(self, n):
        t = self.T(n)
        return '((%s)%s)' % (self.ctype(t), self._paren(self.ex(self.only(n))))

    # object values -------------------------------------------------------------------------------
    def rvalue_for(self, n, t):
        """C expression yielding a *fresh value* of type t from expression n (copying if n is an lvalue of owning type)."""
        t = strip_ref(t)
        k = n['kind']
        if k in ('ExprWithCleanups', 'MaterializeTemporaryExpr', 'CXXBindTemporaryExpr', 'ParenExpr', 'ConstantExpr'):
            return self.rvalue_for(self.only(n), t)
        if k in ('ImplicitCastExpr', 'CXXFunctionalCastExpr', 'CXXStaticCastExpr') and n.get('castKind') in ('NoOp', 'ConstructorConversion', 'UserDefinedConversion'):
            inner = self.only(n)
            it = strip_ref(self.T(inner)) if 'type' in inner else None
            if it == t or inner['kind'] in ('CXXConstructExpr', 'CXXTemporaryObjectExpr', 'CXXMemberCallExpr', 'InitListExpr', 'CXXBindTemporaryExpr', 'MaterializeTemporaryExpr'):
                return self.rvalue_for(inner, t)
        if k in ('CXXConstructExpr', 'CXXTemporaryObjectExpr'):
            return self.construct(n, t)
        if k == 'InitListExpr':
            return self.initlist(n, t)
        if k == 'CXXDefaultArgExpr':
            raise Unsupported('default argument used')
        if k == 'CXXStdInitializerListExpr':
            raise Unsupported('std::initializer_list')
        if k == 'ImplicitValueInitExpr':
            return self.zero_value(t)
        if k == 'CXXScalarValueInitExpr':
            return self.zero_value(t)
        owning = is_owning(t, self.P_records())
        if owning and n.get('valueCategory') == 'lvalue' and t[0] != 'ptr':
            a = self.addr(n)
            self.hit('deep-copy')
            return '%s(%s)' % (self.U.copy_fn(t), a)
        if k == 'CallExpr' and self._callee_name(n) in ('move', 'forward') and self._is_std_callee(n):
            self.hit('std::move')
            arg = [x for x in n['inner'][1:]][0]
            return self.lv(arg)
        return self.ex(n)

    def zero_value(self, t):
        if t[0] in ('int', 'bool', 'double', 'float', 'ptr', 'enum'):
            return '0'
        return '(%s){0}' % self.ctype(t)

    def default_value(self, t):
        """Default-initialised object (T x;) as an expression, used for members and temporaries."""
        if t[0] == 'vec':
            self.U.need_model('vec', t)
            return 'vec_%s_default()' % tag(t[1])
        if t[0] in ('str', 'opt'):
            return '(%s){0}' % self.ctype(t)
        if t[0] == 'rec':
            dc = self.U.find_ctor(t[1], 'void ()')
            if dc is not None:
                return '%s()' % self.U.ctor_fn(t[1], dc)
            return '%s()' % self.U.default_fn(t)
        if t[0] == 'pair':
            return '(%s){0}' % self.ctype(t)
        return None  # indeterminate

    def construct(self, n, t):
        args = [x for x in n.get('inner', []) or [] if x and x.get('kind') != 'CXXDefaultArgExpr']
        ct = strip_ref(self.T(n))
        self.hit('construct:' + ct[0])
        ctor_t = n.get('ctorType', {}).get('qualType', '')
        if n.get('elidable') and len(args) == 1 and '&&' not in ctor_t:
            return self.rvalue_for(args[0], ct)
        if not args:
            if ct[0] == 'rec' and self.U.find_ctor(ct[1], 'void ()') is not None:
                return '%s()' % self.U.ctor_fn(ct[1], self.U.find_ctor(ct[1], 'void ()'))
            if n.get('zeroing') or n.get('list'):
                if ct[0] == 'rec':
                    return '%s()' % self.U.default_fn(ct, zero=True)
                if ct[0] == 'vec':
                    return self.default_value(ct)
                return self.zero_value(ct)
            d = self.default_value(ct)
            if d is None:
                tn = self.tmp()
                self.pre.append(self.decl(ct, tn) + ';')
                return tn
            return d
        ctor_t = n.get('ctorType', {}).get('qualType', '')
        if len(args) == 1:
            at = strip_ref(self.T(args[0])) if 'type' in args[0] else None
            if at == ct:
                # copy or move construction: the AST names the constructor that overload resolution chose
                if '&&' in ctor_t:
                    self.hit('move-construct')
                    return self.lv(args[0])
                return self.rvalue_for(args[0], ct)
        if ct[0] == 'pair':
            a = self.rvalue_for(args[0], ct[1])
            b = self.rvalue_for(args[1], ct[2])
            return '(%s){%s, %s}' % (self.ctype(ct), a, b)
        if ct[0] == 'vec':
            if len(args) == 1 and strip_ref(self.T(args[0]))[0] == 'int':
                self.U.need_model('vec', ct)
                tn = self.tmp()
                self.pre.append('%s = vec_%s_ctor_n(%s);' % (self.decl(ct, tn), tag(ct[1]), self.ex(args[0])))
                self.after_call(True)
                return tn
            real_args = [a for a in args if a.get('kind') != 'CXXDefaultArgExpr']
            if len(real_args) == 2 and strip_ref(self.T(real_args[0]))[0] == 'int':
                # vector(n, value); elements that own storage share the value's storage (nothing in the model mutates string
                # storage in place, assignments replace it)
                if is_owning(ct[1], self.P_records()):
                    self.hit('vector(n, value) of owning elements: shared storage')
                self.U.need_model('vec', ct)
                tn = self.tmp()
                self.pre.append('%s = vec_%s_ctor_n_val(%s, %s);' % (self.decl(ct, tn), tag(ct[1]), self.ex(real_args[0]), self.rvalue_for(real_args[1], ct[1])))
                self.after_call(True)
                return tn
            raise Unsupported('vector constructor %s' % ctor_t)
        if ct[0] == 'opt':
            if len(args) == 1:
                a0 = args[0]
                at = strip_ref(self.T(a0))
                if at[0] == 'opaque' and 'nullopt' in at[1]:
                    return '(%s){0}' % self.ctype(ct)
                v = self.rvalue_for(a0, ct[1]) if at == ct[1] or at[0] != 'opt' else None
                if v is None:
                    raise Unsupported('optional converting constructor')
                if at != ct[1]:
                    v = self.convert_scalar(v, at, ct[1])
                return '(%s){1, %s}' % (self.ctype(ct), v)
            raise Unsupported('optional constructor %s' % ctor_t)
        if ct[0] == 'str':
            if len(args) == 1 and args[0]['kind'] in ('StringLiteral',) or (len(args) == 1 and self._find(args[0], 'StringLiteral') is not None and strip_ref(self.T(args[0]))[0] == 'ptr'):
                lit = self._find(args[0], 'StringLiteral')['value']
                self.U.need_model('str')
                return 'str_from_lit(%s, %d)' % (lit, self.U.literal_id(lit))
            real = [a_ for a_ in args if a_.get('kind') != 'CXXDefaultArgExpr']
            if len(real) == 2 and strip_ref(self.T(real[0]))[0] == 'ptr' and strip_ref(self.T(real[1]))[0] == 'int':
                # string(const char* p, size_t n) == default string + assign(p, n)
                self.U.need_model('str')
                self.hit('string(ptr, n) as assign')
                tn = self.tmp()
                self.pre.append('%s = %s;' % (self.decl(ct, tn), self.default_value(ct)))
                self.pre.append('str_assign_n(&%s, %s, %s);' % (tn, self.ex(real[0]), self.ex(real[1])))
                return tn
            raise Unsupported('string constructor %s' % ctor_t)
        if ct[0] == 'rec':
            if ct[1] in self.P.exc_parent:
                return '/*exception object*/0'
            ctor = self.U.find_ctor(ct[1], ctor_t)
            if ctor is None:
                raise Unsupported('user constructor of %s (%s)' % (ct[1], ctor_t))
            fn = self.U.ctor_fn(ct[1], ctor)
            ptypes = [self.P.typeof(c) for c in ctor.get('inner', []) or [] if c.get('kind') == 'ParmVarDecl']
            cargs = []
            for a, pt in zip(args, ptypes):
                cargs.append(self.addr(a) if pt[0] == 'ref' else self.rvalue_for(a, pt))
            self.hit('user-constructor')
            return '%s(%s)' % (fn, ', '.join(cargs))
        raise Unsupported('construct %r from %d args in %s' % (ct, len(args), self.key))

    def convert_scalar(self, v, frm, to):
        if frm == to:
            return v
        if to[0] in ('int', 'double', 'float', 'bool') and frm[0] in ('int', 'double', 'float', 'bool', 'enum'):
            return '((%s)%s)' % (self.ctype(to), self._paren(v))
        raise Unsupported('conversion %r -> %r' % (frm, to))

    def initlist(self, n, t):
        it = strip_ref(self.T(n))
        items = [x for x in n.get('inner', []) or [] if x]
        self.hit('initlist:' + it[0])
        if it[0] == 'rec':
            fields = self.P.record_fields(it[1])
            if len(items) > len(fields):
                raise Unsupported('too many initialisers for %s' % it[1])
            parts = []
            for (fn_, ft, finit), x in zip(fields, items):
                if x.get('kind') == 'CXXDefaultInitExpr' and not [y for y in x.get('inner', []) or [] if y]:
                    # the field's default member initialiser (clang's JSON does not repeat it here)
                    if finit is None:
                        raise Unsupported('CXXDefaultInitExpr for field %s of %s which has no default member initialiser' % (fn_, it[1]))
                    self.hit('default-member-init')
                    parts.append('.%s = %s' % (fn_, self.rvalue_for(finit, ft)))
                    continue
                parts.append('.%s = %s' % (fn_, self.rvalue_for(x, ft)))
            if len(items) < len(fields):
                raise Unsupported('partial aggregate initialisation of %s (clang normally fills these in)' % it[1])
            self.U.need_type(it)
            return '(%s){%s}' % (self.ctype(it), ', '.join(parts))
        if it[0] == 'pair':
            return '(%s){%s, %s}' % (self.ctype(it), self.rvalue_for(items[0], it[1]), self.rvalue_for(items[1], it[2]))
        if it[0] in ('int', 'double', 'bool', 'float', 'ptr', 'enum'):
            if not items:
                return '0'
            return self.ex(items[0])
        if it[0] in ('vec', 'str', 'opt') and not items:
            return self.default_value(it)
        raise Unsupported('init list for %r' % (it,))

    def e_InitListExpr(self, n):
        return self.initlist(n, self.T(n))

    def e_CXXConstructExpr(self, n, discard=False):
        return self.construct(n, self.T(n))

    def e_CXXTemporaryObjectExpr(self, n):
        return self.construct(n, self.T(n))

    def e_CXXDefaultInitExpr(self, n):
        inner = [x for x in n.get('inner', []) or [] if x]
        if inner:
            return self.rvalue_for(inner[0], self.T(n))
        raise Unsupported('CXXDefaultInitExpr without expression')

    def e_ImplicitValueInitExpr(self, n):
        return self.zero_value(self.T(n))

    def e_CXXScalarValueInitExpr(self, n):
        return self.zero_value(self.T(n))

    # throw ----------------------------------------------------------------------------------------
    def e_CXXThrowExpr(self, n, discard=False):
        inner = [x for x in n.get('inner', []) or [] if x]
        if not inner:
            raise Unsupported('rethrow')
        t = strip_ref(self.T(inner[0]))
        q = None
        if t[0] == 'rec':
            q = t[1]
        elif t[0] == 'opaque':
            q = t[1]
        if q not in self.P.exc_parent:
            raise Unsupported('throw of non-exception type %r' % (t,))
        self.U.need_exc(q)
        self.hit('throw:' + q)
        self.pre.append('verif_exc = %s; %s' % (exc_cname(q), self.propagate()))
        return ''

    # calls ----------------------------------------------------------------------------------------
    def _callee_decl(self, n):
        c = n['inner'][0]
        while c['kind'] in ('ImplicitCastExpr', 'ParenExpr'):
            c = self.only(c)
        return c

    def _callee_name(self, n):
        c = self._callee_decl(n)
        if c['kind'] == 'DeclRefExpr':
            return c['referencedDecl'].get('name')
        if c['kind'] == 'MemberExpr':
            return c.get('name')
        return None

    def _is_std_callee(self, n):
        c = self._callee_decl(n)
        if c['kind'] == 'DeclRefExpr':
            return c['referencedDecl']['id'] not in self.P.by_id
        return False

    def e_CallExpr(self, n, discard=False):
        c = self._callee_decl(n)
        args = n['inner'][1:]
        if c['kind'] != 'DeclRefExpr':
            raise Unsupported('indirect call in %s' % self.key)
        rd = c['referencedDecl']
        if rd['id'] in self.P.fn_qname:
            return self.user_call(self.P.fn_qname[rd['id']], args, None, n, discard)
        if rd['id'] in self.P.by_id:
            raise Unsupported('call to djinterop function without body: %s' % self.P.by_id[rd['id']][1])
        return self.std_call(rd['name'], args, n, discard)

    def user_call(self, key, args, selfarg, n, discard):
        fn = self.P.functions.get(key)
        ext = self.U.external(key)
        if fn is None and ext is None and self.U.mode != 'modular':
            raise Unsupported('call to %s which has no body in the loaded translation units' % key)
        self.callees.add(key)
        self.U.want(key)
        ptypes = self.U.param_types(key)
        cargs = []
        if selfarg is not None:
            cargs.append(selfarg)
        if len(args) != len(ptypes):
            raise Unsupported('argument count mismatch calling %s' % key)
        for i, (a, pt) in enumerate(zip(args, ptypes)):
            if strip_ref(pt)[0] == 'opaque':
                if a.get('kind') != 'DeclRefExpr':
                    raise Unsupported('argument of opaque type %s to %s is not a plain variable' % (pt, key))
                self.hit('opaque-argument(dropped)')
                continue
            if a.get('kind') == 'CXXDefaultArgExpr':
                a = self.default_arg(key, i)
                self.hit('default-argument')
            if pt[0] == 'ref':
                cargs.append(self.addr(a))
            else:
                cargs.append(self.rvalue_for(a, pt))
        call = '%s(%s)' % (self.U.fn_cname(key), ', '.join(cargs))
        rt = self.U.ret_type(key)
        mt = self.U.may_throw(key)
        self.hit('call:user')
        if not mt:
            return call
        if rt[0] == 'void':
            self.pre.append(call + ';')
            self.after_call(True)
            return ''
        tn = self.tmp()
        self.pre.append('%s = %s;' % (self.decl(strip_ref(rt), tn), call))
        self.after_call(True)
        return tn

    def default_arg(self, key, i):
        q = re.sub(r'[<#].*$', '', key)
        for d in self.P.fn_decls.get(q, []):
            ps = [c for c in d.get('inner', []) or [] if c.get('kind') == 'ParmVarDecl']
            if i < len(ps):
                init = [x for x in ps[i].get('inner', []) or [] if 'kind' in x and not x['kind'].endswith('Attr')]
                if init:
                    return init[0]
        raise Unsupported('default argument %d of %s not found' % (i, key))

    def call_ref(self, n):
        """Call returning a reference -> pointer-valued C expression."""
        k = n['kind']
        if k == 'CXXOperatorCallExpr':
            return self.op_call(n, want_ptr=True)
        if k == 'CXXMemberCallExpr':
            return self.member_call(n, want_ptr=True)
        raise Unsupported('reference-returning call %s' % k)

    def std_call(self, name, args, n, discard):
        self.hit('std:' + name)
        if name in ('move', 'forward'):
            return self.lv(args[0])
        if name == 'memcpy':
            a = [self.ex(x) for x in args]
            self.U.need_model('mem')
            return 'verif_memcpy(%s, %s, %s)' % tuple(a)
        if name in ('memmove',):
            a = [self.ex(x) for x in args]
            self.U.need_model('mem')
            return 'verif_memcpy(%s, %s, %s)' % tuple(a)
        if name == 'strncpy':
            a = [self.ex(x) for x in args]
            self.U.need_model('mem')
            return 'verif_strncpy((char*)%s, (const char*)%s, %s)' % tuple(a)
        if name == 'memset':
            a = [self.ex(x) for x in args]
            self.U.need_model('mem')
            return 'verif_memset(%s, %s, %s)' % tuple(a)
        if name in ('copy', 'copy_n') and len(args) == 3:
            # std::copy(first, last, out) / std::copy_n(first, n, out) over raw pointers / vector iterators of bytes
            self.U.need_model('mem')
            a = [self.ex(x) for x in args]
            if name == 'copy':
                return '((void)verif_memcpy(%s, %s, sizeof(*(%s)) * (size_t)((%s) - (%s))), (%s) + ((%s) - (%s)))' % (a[2], a[0], a[0], a[1], a[0], a[2], a[1], a[0])
            return '((void)verif_memcpy(%s, %s, sizeof(*(%s)) * (size_t)(%s)), (%s) + (%s))' % (a[2], a[0], a[0], a[1], a[2], a[1])
        if name in ('epsilon', 'max', 'min', 'lowest', 'infinity') and len(args) == 0:
            # std::numeric_limits<T>::f(): a constant of the result type
            t = strip_ref(self.T(n))
            ct = self.ctype(t)
            consts = {
                ('double', 'epsilon'): '2.220446049250313e-16', ('double', 'max'): '1.7976931348623157e308',
                ('double', 'min'): '2.2250738585072014e-308', ('double', 'lowest'): '(-1.7976931348623157e308)',
                ('double', 'infinity'): '(1.0/0.0)',
                ('float', 'epsilon'): '1.1920928955078125e-7f', ('float', 'max'): '3.4028234663852886e38f',
                ('float', 'min'): '1.1754943508222875e-38f', ('float', 'lowest'): '(-3.4028234663852886e38f)',
                ('int8_t', 'max'): '127', ('int8_t', 'min'): '(-128)', ('uint8_t', 'max'): '255', ('uint8_t', 'min'): '0',
                ('int16_t', 'max'): '32767', ('int16_t', 'min'): '(-32768)', ('uint16_t', 'max'): '65535', ('uint16_t', 'min'): '0',
                ('int32_t', 'max'): '2147483647', ('int32_t', 'min'): '(-2147483647-1)', ('uint32_t', 'max'): '4294967295u', ('uint32_t', 'min'): '0u',
                ('int64_t', 'max'): '9223372036854775807LL', ('int64_t', 'min'): '(-9223372036854775807LL-1)',
                ('uint64_t', 'max'): '18446744073709551615ULL', ('uint64_t', 'min'): '0ULL',
                ('int', 'max'): '2147483647', ('int', 'min'): '(-2147483647-1)',
                ('size_t', 'max'): '18446744073709551615ULL', ('size_t', 'min'): '0ULL',
            }
            for k in list(consts):
                if k[1] == 'min' and (k[0], 'lowest') not in consts:
                    consts[(k[0], 'lowest')] = consts[k]
            if (ct, name) not in consts:
                raise Unsupported('std::numeric_limits<%s>::%s' % (ct, name))
            return '((%s)%s)' % (ct, consts[(ct, name)])
        if name in ('max', 'min'):
            t = strip_ref(self.T(n))
            a, b = self.ex(args[0]), self.ex(args[1])
            self.U.need_model('arith')
            ta, tb = self.tmp(), self.tmp()
            self.pre.append('%s = %s; %s = %s;' % (self.decl(t, ta), a, self.decl(t, tb), b))
            # std::max(a,b) = (a < b) ? b : a ; std::min(a,b) = (b < a) ? b : a
            return '(%s < %s ? %s : %s)' % ((ta, tb, tb, ta) if name == 'max' else (tb, ta, tb, ta))
        if name == 'clamp':
            t = strip_ref(self.T(n))
            v, lo, hi = [self.ex(x) for x in args]
            tv, tl, th = self.tmp(), self.tmp(), self.tmp()
            self.pre.append('%s = %s; %s = %s; %s = %s;' % (self.decl(t, tv), v, self.decl(t, tl), lo, self.decl(t, th), hi))
            return '(%s < %s ? %s : (%s < %s ? %s : %s))' % (tv, tl, tl, th, tv, th, tv)
        if name in ('ceil', 'floor', 'round', 'fabs', 'abs', 'lround', 'llround', 'trunc'):
            self.U.need_model('math')
            return 'verif_%s(%s)' % (name, ', '.join(self.ex(x) for x in args))
        if name == 'to_integer':
            t = self.T(n)
            return '((%s)%s)' % (self.ctype(t), self._paren(self.ex(args[0])))
        if name == 'make_optional':
            t = strip_ref(self.T(n))
            v = self.rvalue_for(args[0], t[1])
            return '(%s){1, %s}' % (self.ctype(t), v)
        if name in ('begin', 'cbegin', 'end', 'cend'):
            ct = strip_ref(self.T(args[0]))
            a = self.addr(args[0])
            if ct[0] != 'vec':
                raise Unsupported('std::%s on %r' % (name, ct))
            self.U.need_model('vec', ct)
            return '(%s->data%s)' % (a, '' if 'begin' in name else ' + %s->size' % a)
        if name == 'accumulate':
            return self.accumulate(args, n)
        if name == 'find_if':
            return self.find_if(args, n)
        if name == 'transform' and len(args) == 4:
            return self.transform(args, n)
        if name == 'tie':
            raise Unsupported('std::tie outside an assignment')
        if name in ('inflateInit_', 'inflate', 'inflateEnd', 'deflateInit_', 'deflate', 'deflateEnd'):
            self.U.need_model('zlib')
            cargs = []
            for x in args:
                cargs.append(self.ex(x))
            return 'verif_%s(%s)' % (name, ', '.join(cargs))
        if name == 'system_category':
            return '0'
        if name == 'now' and len(args) == 0:
            # std::chrono::system_clock::now(): any tick count
            return '((int64_t)nondet_size_t())'
        raise Unsupported('std/external function %s has no model (in %s)' % (name, self.key))

    def lambda_fn(self, lam, param_types):
        """Lift a lambda to a static function; returns (cname, capture argument list)."""
        return self.U.lift_lambda(self, lam, param_types)

    def accumulate(self, args, n):
        first, last, init, op = args
        lam = self._find(op, 'LambdaExpr')
        if lam is None:
            raise Unsupported('std::accumulate without a lambda')
        cont = self._range_container(first, last)
        ct = strip_ref(self.T(cont))
        if ct[0] != 'vec':
            raise Unsupported('accumulate over %r' % (ct,))
        acc_t = strip_ref(self.T(n))
        a = self.addr(cont)
        fn, caps = self.lambda_fn(lam, None)
        iv = self.ex(init)
        acc, idx = self.tmp('acc'), self.tmp('k')
        if hasattr(self.U, 'loop_summary') and self.U.loop_summary(self.key, self.loopn) is not None:
            k0 = self.loopn
            summ = self.U.loop_summary(self.key, k0).replace('\\acc', acc).replace('\\range', a)
            self.loop_nodes[k0] = n
            self.loopn += 1
            self.hit('loop-summarised')
            self.pre.append('%s = %s;' % (self.decl(acc_t, acc), iv))
            self.pre.append('/* std::accumulate (loop %d) replaced by its summary (see contract) */ { %s }' % (k0, summ))
            return acc
        k, annot = self.loop_annot(n)
        lp = self.U.lambda_params(fn)
        # element is passed as the lambda declares it: by value, by const ref, or converted (T -> optional<T>)
        elem = '&%s->data[%s]' % (a, idx)
        pt = lp[1]
        if strip_ref(pt) == ct[1]:
            arg = elem if pt[0] == 'ref' else '%s->data[%s]' % (a, idx)
            conv = ''
        elif strip_ref(pt)[0] == 'opt' and strip_ref(pt)[1] == ct[1]:
            tn = self.tmp('conv')
            conv = '%s = {1, %s->data[%s]}; ' % (self.decl(strip_ref(pt), tn), a, idx)
            arg = '&' + tn if pt[0] == 'ref' else tn
            self.hit('accumulate:elem->optional(temporary, shallow)')
        else:
            raise Unsupported('accumulate lambda parameter %r over elements %r' % (pt, ct[1]))
        self.pre.append('%s = %s;' % (self.decl(acc_t, acc), iv))
        self.pre.append('for (size_t %s = 0; %s < %s->size; ++%s) /* loop %d */ %s { %s%s = %s(%s); }' % (
            idx, idx, a, idx, k, ' '.join(x.replace('\\idx', idx).replace('\\acc', acc).replace('\\range', a) for x in annot), conv, acc, fn,
            ', '.join([acc, arg] + caps)))
        return acc

    def _range_container(self, first, last):
        def cont_of(x, which):
            c = x
            while c['kind'] in ('ImplicitCastExpr', 'MaterializeTemporaryExpr', 'ExprWithCleanups', 'CXXBindTemporaryExpr', 'CXXConstructExpr', 'ParenExpr'):
                c = self.only(c) if len([y for y in c.get('inner', []) if y]) == 1 else c['inner'][0]
            if c['kind'] == 'CXXMemberCallExpr' and c['inner'][0].get('name') in which:
                return self.only(c['inner'][0])
            if c['kind'] == 'CallExpr' and self._callee_name(c) in which:
                return c['inner'][1]
            raise Unsupported('iterator range start/end is not container.begin()/end()')
        a = cont_of(first, ('begin', 'cbegin'))
        if last is None:
            return a
        b = cont_of(last, ('end', 'cend'))
        if self._strip_ids(a) != self._strip_ids(b):
            raise Unsupported('begin()/end() of different containers')
        return a

    def _strip_ids(self, n):
        if isinstance(n, dict):
            return {k: self._strip_ids(v) for k, v in n.items() if k not in ('id', 'loc', 'range')}
        if isinstance(n, list):
            return [self._strip_ids(x) for x in n]
        return n

    def find_if(self, args, n):
        first, last, pred = args
        lam = self._find(pred, 'LambdaExpr')
        if lam is None:
            raise Unsupported('std::find_if without a lambda')
        cont = self._range_container(first, last)
        ct = strip_ref(self.T(cont))
        a = self.addr(cont)
        fn, caps = self.lambda_fn(lam, None)
        lp = self.U.lambda_params(fn)
        idx = self.tmp('k')
        k, annot = self.loop_annot(n)
        arg = ('&%s->data[%s]' if lp[0][0] == 'ref' else '%s->data[%s]') % (a, idx)
        self.pre.append('size_t %s = 0;' % idx)
        self.pre.append('for (; %s < %s->size; ++%s) /* loop %d */ %s { if (%s(%s)) break; }' % (
            idx, a, idx, k, ' '.join(x.replace('\\idx', idx).replace('\\range', a) for x in annot), fn, ', '.join([arg] + caps)))
        return '(%s->data + %s)' % (a, idx)

    def transform(self, args, n):
        """std::transform(c.begin(), c.end(), d.begin(), lambda): a loop applying the lifted real lambda to each element of c in
        order and assigning the result through the output iterator, which must stay inside d (obligation per element)."""
        first, last, dfirst, op = args
        lam = self._find(op, 'LambdaExpr')
        if lam is None:
            raise Unsupported('std::transform without a lambda')
        cont = self._range_container(first, last)
        dcont = self._range_container(dfirst, None)
        ct, dt = strip_ref(self.T(cont)), strip_ref(self.T(dcont))
        if ct[0] != 'vec' or dt[0] != 'vec':
            raise Unsupported('transform over %r into %r' % (ct, dt))
        a, d = self.addr(cont), self.addr(dcont)
        fn, caps = self.lambda_fn(lam, None)
        lp = self.U.lambda_params(fn)
        if strip_ref(lp[0]) != ct[1]:
            raise Unsupported('transform lambda parameter %r over elements %r' % (lp[0], ct[1]))
        idx = self.tmp('k')
        k, annot = self.loop_annot(n)
        arg = ('&%s->data[%s]' if lp[0][0] == 'ref' else '%s->data[%s]') % (a, idx)
        self.pre.append('size_t %s = 0;' % idx)
        self.pre.append('for (; %s < %s->size; ++%s) /* loop %d */ %s { VERIF_ASSERT(%s < %s->size, "check: output iterator in range"); %s->data[%s] = %s(%s); }' % (
            idx, a, idx, k, ' '.join(x.replace('\\idx', idx).replace('\\range', a) for x in annot), idx, d, d, idx, fn, ', '.join([arg] + caps)))
        self.hit('std::transform(model loop over the lifted lambda)')
        return '(%s->data + %s)' % (d, idx)

    def e_LambdaExpr(self, n):
        raise Unsupported('lambda used as a value in %s' % self.key)

    # member calls ---------------------------------------------------------------------------------
    def e_CXXMemberCallExpr(self, n, discard=False):
        return self.member_call(n, discard=discard)

    def member_call(self, n, want_ptr=False, discard=False):
        me = self._callee_decl(n)
        args = n['inner'][1:]
        if me['kind'] != 'MemberExpr':
            raise Unsupported('member call through %s' % me['kind'])
        obj = self.only(me)
        if me.get('name') == 'at' and len(args) == 1:
            # G.at(i) on a constant std::array global: accessor over the initialiser list + the range check of array::at
            o_ = obj
            while o_.get('kind') in ('ImplicitCastExpr', 'ParenExpr'):
                o_ = self.only(o_)
            rd_ = o_.get('referencedDecl') or {}
            if o_.get('kind') == 'DeclRefExpr' and rd_.get('kind') == 'VarDecl' and rd_.get('id') in self.P.globals and \
                    re.match(r'^const std::array<', (o_.get('type') or {}).get('qualType', '')):
                q_, gnode = self.P.globals[rd_['id']]
                fname, cnt, et_ = self.U.global_array_at(q_, gnode)
                self.hit('std::array constant: at()')
                tn = self.tmp('i')
                self.pre.append('size_t %s = (size_t)(%s);' % (tn, self.ex(args[0])))
                self.pre.append('if (%s >= %d) verif_exc = EXC_std_out_of_range;' % (tn, cnt))
                self.after_call(True)
                return '%s(%s)' % (fname, tn)
        ot = strip_ref(self.T(obj))
        if me.get('isArrow'):
            if ot[0] == 'ptr':
                ot = ot[1]
                optr = self.ex(obj)
            elif ot[0] == 'opt':
                raise Unsupported('-> on optional handled by operator call')
            else:
                raise Unsupported('-> member call on %r' % (ot,))
        else:
            optr = None
        name = me['name']
        mid = me.get('referencedMemberDecl')
        if mid in self.P.fn_qname:
            key = self.P.fn_qname[mid]
            fnode = self.P.by_id.get(mid, (None, None))[0]
            callee_is_method = FnTranslator(self.P, self.U, key, fnode).is_method if fnode is not None else True
            if not callee_is_method:
                self.hit('opaque-receiver(dropped)')
                return self.user_call(key, args, None, n, discard)
            if optr is None:
                optr = self.addr(obj)
            return self.user_call(key, args, optr, n, discard)
        if optr is None:
            optr = self.addr(obj)
        return self.std_member(ot, name, optr, args, n, want_ptr)

    def std_member(self, ot, name, o, args, n, want_ptr=False):
        self.hit('std-member:%s.%s' % (ot[0], name))
        if ot[0] == 'int' and name == 'count' and not args:
            # std::chrono::duration::count(): durations are their tick count
            return '(*%s)' % o
        if ot[0] == 'vec':
            self.U.need_model('vec', ot)
            tg = tag(ot[1])
            et = ot[1]
            if name == 'size':
                return '%s->size' % o
            if name == 'empty':
                return '(%s->size == 0)' % o
            if name == 'data':
                return '%s->data' % o
            if name in ('begin', 'cbegin'):
                return '%s->data' % o
            if name in ('end', 'cend'):
                return '(%s->data + %s->size)' % (o, o)
            if name == 'clear':
                return '%s->size = 0' % o
            if name in ('back', 'front'):
                self.U.need_model('check')
                p = 'vec_%s_%s(%s)' % (tg, name, o)
                return p if want_ptr else '(*%s)' % p
            if name == 'resize' and len([x for x in args if x.get('kind') != 'CXXDefaultArgExpr']) == 2:
                # resize(n, value): appended elements are copies of value (elements that own storage share the value's
                # storage: nothing in the model mutates string storage in place)
                self.hit('vector::resize(n, value)')
                self.pre.append('vec_%s_resize_val(%s, %s, %s);' % (tg, o, self.ex(args[0]), self.rvalue_for(args[1], et)))
                self.after_call(True)
                return ''
            if name == 'resize' and et[0] == 'opt':
                # appended optionals are value-initialised: disengaged
                self.hit('vector<optional>::resize(n): appended elements disengaged')
                self.pre.append('vec_%s_resize_zero(%s, %s);' % (tg, o, self.ex(args[0])))
                self.after_call(True)
                return ''
            if name in ('reserve', 'resize'):
                self.pre.append('vec_%s_%s(%s, %s);' % (tg, name, o, self.ex(args[0])))
                self.after_call(True)
                return ''
            if name == 'push_back':
                v = self.rvalue_for(args[0], et)
                self.pre.append('vec_%s_push_back(%s, %s);' % (tg, o, v))
                self.after_call(False)
                return ''
            if name == 'emplace_back':
                if len(args) != 1:
                    raise Unsupported('emplace_back with %d args' % len(args))
                at = strip_ref(self.T(args[0]))
                if at == et:
                    v = self.rvalue_for(args[0], et)
                elif et[0] == 'opt' and at == et[1]:
                    v = '(%s){1, %s}' % (self.ctype(et), self.rvalue_for(args[0], et[1]))
                elif et[0] == 'opt' and at[0] == 'opaque' and 'nullopt' in at[1]:
                    v = '(%s){0}' % self.ctype(et)
                else:
                    raise Unsupported('emplace_back(%r) into vector of %r' % (at, et))
                self.pre.append('vec_%s_push_back(%s, %s);' % (tg, o, v))
                return ''
            if name == 'insert':
                # insert(pos, first, last) with pos == end()
                pos, first, last = args
                pc = self._find(pos, 'CXXMemberCallExpr')
                if pc is None or pc['inner'][0].get('name') not in ('end', 'cend'):
                    raise Unsupported('vector::insert not at end()')
                self.pre.append('vec_%s_insert_end(%s, %s, %s);' % (tg, o, self.ex(first), self.ex(last)))
                return ''
            if name == 'erase':
                if len(args) != 2:
                    raise Unsupported('vector::erase(pos)')
                a, b = self.ex(args[0]), self.ex(args[1])
                self.pre.append('vec_%s_erase_range(%s, %s, %s);' % (tg, o, a, b))
                return ''
            if name == 'at':
                tn = self.tmp()
                self.pre.append('%s* %s = vec_%s_at(%s, %s);' % (self.ctype(et), tn, tg, o, self.ex(args[0])))
                self.after_call(True)
                return tn if want_ptr else '(*%s)' % tn
        if ot[0] == 'str':
            self.U.need_model('str')
            if name in ('length', 'size'):
                return '%s->size' % o
            if name == 'empty':
                return '(%s->size == 0)' % o
            if name == 'assign':
                if len(args) == 2:
                    self.pre.append('str_assign_n(%s, %s, %s);' % (o, self.ex(args[0]), self.ex(args[1])))
                    return ''
            if name in ('data', 'c_str'):
                return '%s->data' % o
        if ot[0] == 'opt':
            if name == 'value_or':
                at = strip_ref(self.T(args[0]))
                d = self.ex(args[0])
                return '(%s->has ? %s->val : %s)' % (o, o, self.convert_scalar(d, at, ot[1]) if at != ot[1] else d)
            if name == 'has_value' or name == 'operator bool':
                return '%s->has' % o
            if name == 'value':
                self.U.need_model('check')
                self.U.need_exc('std::bad_optional_access')
                self.pre.append('if (!%s->has) { verif_exc = %s; %s }' % (o, exc_cname('std::bad_optional_access'), self.propagate()))
                return '(&%s->val)' % o if want_ptr else '%s->val' % o
            if name == 'operator*':
                self.U.need_model('check')
                return ('(VERIF_CHECK_PTR(%s->has, "optional engaged"), &%s->val)' if want_ptr else '(*(VERIF_CHECK_PTR(%s->has, "optional engaged"), &%s->val))') % (o, o)
        raise Unsupported('no model for %s::%s (%d args) in %s' % (ot[0], name, len(args), self.key))

    # operator calls --------------------------------------------------------------------------------
    def e_CXXOperatorCallExpr(self, n, discard=False):
        return self.op_call(n, discard=discard)

    def op_call(self, n, want_ptr=False, discard=False):
        c = self._callee_decl(n)
        args = n['inner'][1:]
        rd = c['referencedDecl']
        op = rd['name']
        self.hit('operator:' + op)
        if rd['id'] in self.P.fn_qname and self.P.fn_qname[rd['id']] in self.P.functions and not (
                op == 'operator=' and self.P.functions[self.P.fn_qname[rd['id']]].get('isImplicit')):
            # user-defined operator (e.g. operator== of a blob struct); the compiler-generated copy/move assignment is
            # a memberwise assignment and is lowered as such below
            key = self.P.fn_qname[rd['id']]
            fn = self.P.functions[key]
            if FnTranslator(self.P, self.U, key, fn).is_method:
                return self.user_call(key, args[1:], self.addr(args[0]), n, discard)
            return self.user_call(key, args, None, n, discard)
        a0t = strip_ref(self.T(args[0]))
        if op == 'operator=':
            if a0t[0] == 'tuple':
                return self.tie_assign(args[0], args[1])
            l = self.lv(args[0])
            if a0t[0] == 'opt':
                rt_ = strip_ref(self.T(args[1]))
                if rt_[0] == 'opaque' and 'nullopt' in rt_[1]:
                    return '%s = (%s){0}' % (l, self.ctype(a0t))
                if rt_ != a0t:
                    v = self.rvalue_for(args[1], a0t[1])
                    if rt_ != a0t[1]:
                        v = self.convert_scalar(v, rt_, a0t[1])
                    return '%s = (%s){1, %s}' % (l, self.ctype(a0t), v)
            r = self.rvalue_for(args[1], a0t)
            return '%s = %s' % (l, r)
        if op == 'operator[]':
            if a0t[0] == 'vec':
                self.U.need_model('vec', a0t)
                self.U.need_model('check')
                o = self.addr(args[0])
                i = self.ex(args[1])
                p = 'vec_%s_index(%s, %s)' % (tag(a0t[1]), o, i)
                return p if want_ptr else '(*%s)' % p
            if a0t[0] == 'str':
                self.U.need_model('str')
                o = self.addr(args[0])
                p = 'str_index(%s, %s)' % (o, self.ex(args[1]))
                return p if want_ptr else '(*%s)' % p
        if a0t[0] == 'opt':
            o = self.addr(args[0])
            if op in ('operator*', 'operator->'):
                self.U.need_model('check')
                p = '(VERIF_CHECK_PTR(%s->has, "optional engaged"), &%s->val)' % (o, o)
                if op == 'operator->':
                    return p
                return p if want_ptr else '(*%s)' % p
            if op in ('operator==', 'operator!='):
                bt = strip_ref(self.T(args[1]))
                if bt[0] == 'opt':
                    eq = self.U.eq_fn(a0t)
                    b = self.addr(args[1])
                    return '%s%s(%s, %s)' % ('!' if op == 'operator!=' else '', eq, o, b)
                if bt == a0t[1]:
                    # optional<T> == T : engaged and equal
                    b = self.addr(args[1])
                    if bt[0] in ('int', 'bool', 'double', 'float', 'enum', 'ptr'):
                        e = '(%s->has && %s->val == *%s)' % (o, o, b)
                    else:
                        e = '(%s->has && %s(&%s->val, %s))' % (o, self.U.eq_fn(bt), o, b)
                    return ('!' + e) if op == 'operator!=' else e
        if a0t[0] == 'str' and op == 'operator+':
            lit = self._find(args[1], 'StringLiteral') if strip_ref(self.T(args[1]))[0] == 'ptr' else None
            if lit is None:
                raise Unsupported('string + non-literal')
            self.U.need_model('str')
            return 'str_concat_lit(%s, %s, %d)' % (self.addr(args[0]), lit['value'], self.U.literal_id(lit['value']))
        if a0t[0] == 'str' and op in ('operator==', 'operator!='):
            bt = strip_ref(self.T(args[1]))
            self.U.need_model('str')
            if bt[0] == 'str':
                return '%sstr_eq(%s, %s)' % ('!' if op == 'operator!=' else '', self.addr(args[0]), self.addr(args[1]))
        if a0t[0] == 'vec' and op in ('operator==', 'operator!='):
            return '%s%s(%s, %s)' % ('!' if op == 'operator!=' else '', self.U.eq_fn(a0t), self.addr(args[0]), self.addr(args[1]))
        if a0t[0] == 'ptr' and op in ('operator+', 'operator-', 'operator!=', 'operator==', 'operator<', 'operator*', 'operator++', 'operator->'):
            # __normal_iterator arithmetic: iterators are pointers
            if op == 'operator*':
                p = self.ex(args[0])
                return p if want_ptr else '(*%s)' % self._paren(p)
            if op == 'operator->':
                return self.ex(args[0])
            if op == 'operator++':
                l = self.lv(args[0])
                if len(args) == 1:
                    return ('(&(++%s))' % l) if want_ptr else '++%s' % l
                return '%s++' % l
            return '(%s %s %s)' % (self.ex(args[0]), op[8:], self.ex(args[1]))
        raise Unsupported('operator call %s on %r in %s' % (op, a0t, self.key))

    def tie_assign(self, tie_call, rhs):
        tc = tie_call
        while tc['kind'] in ('MaterializeTemporaryExpr', 'ExprWithCleanups', 'ImplicitCastExpr', 'CXXBindTemporaryExpr'):
            tc = self.only(tc)
        if tc['kind'] != 'CallExpr' or self._callee_name(tc) != 'tie':
            raise Unsupported('tuple assignment whose left side is not std::tie(...)')
        lhs = tc['inner'][1:]
        rt = strip_ref(self.T(rhs))
        if rt[0] != 'pair' or len(lhs) != 2:
            raise Unsupported('std::tie assignment from %r' % (rt,))
        v = self.rvalue_for(rhs, rt)
        if not re.fullmatch(r'__t\d+', v):
            tn = self.tmp()
            self.pre.append('%s = %s;' % (self.decl(rt, tn), v))
            v = tn
        self.hit('tie-assign')
        for x, f, ft in zip(lhs, ('first', 'second'), (rt[1], rt[2])):
            if x['kind'] == 'DeclRefExpr' and x['referencedDecl'].get('name') == 'ignore' and x['referencedDecl']['id'] not in self.local_names:
                continue
            lt = strip_ref(self.T(x))
            l = self.lv(x)
            val = '%s.%s' % (v, f)
            if lt != ft:
                val = self.convert_scalar(val, ft, lt)
            self.pre.append('%s = %s;' % (l, val))
        return ''

    def e_CXXDefaultArgExpr(self, n):
        raise Unsupported('default argument')

    def e_UnaryExprOrTypeTraitExpr(self, n):
        if n.get('name') == 'sizeof':
            at = n.get('argType')
            if at:
                t = self.P.tp.parse(at.get('desugaredQualType', at['qualType']))
                return 'sizeof(%s)' % self.ctype(t)
        raise Unsupported('sizeof/alignof expression form')
