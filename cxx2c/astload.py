"""Load clang's JSON AST dump (possibly several concatenated top-level objects)."""
import json, subprocess, os, hashlib

REPO = os.environ.get("VERIF_REPO", "/repo")

def include_flags(repo=REPO, gen_dir=None):
    flags = ["-I%s/include" % repo, "-I%s/src" % repo,
             "-I%s/ext/sqlite_modern_cpp" % repo, "-I%s/ext/date" % repo,
             "-I%s/ext/sqlite-amalgamation" % repo]
    if gen_dir:
        flags.insert(0, "-I%s" % gen_dir)
    return flags

def dump_ast(src, gen_dir, repo=REPO, filt="djinterop", extra=()):
    cmd = ["clang++", "-std=c++17", "-fsyntax-only", "-DNDEBUG"] + include_flags(repo, gen_dir) + list(extra) + [
        "-Xclang", "-ast-dump=json", "-Xclang", "-ast-dump-filter=" + filt, src]
    p = subprocess.run(cmd, stdout=subprocess.PIPE, stderr=subprocess.PIPE, text=True)
    if p.returncode != 0:
        raise RuntimeError("clang failed on %s:\n%s" % (src, p.stderr[-3000:]))
    return parse_concat(p.stdout)

def parse_concat(s):
    dec = json.JSONDecoder()
    i, n, out = 0, len(s), []
    while i < n:
        while i < n and s[i] in " \r\n\t":
            i += 1
        if i >= n:
            break
        obj, j = dec.raw_decode(s, i)
        out.append(obj)
        i = j
    return out

def walk(node):
    yield node
    for c in node.get("inner", []) or []:
        if isinstance(c, dict):
            yield from walk(c)

def show(node, depth=0, maxdepth=99, out=None):
    import sys
    out = out or sys.stdout
    k = node.get("kind", "?")
    bits = [k]
    for key in ("name", "opcode", "value", "castKind", "valueCategory"):
        if key in node:
            bits.append("%s=%s" % (key, node[key]))
    if "type" in node:
        bits.append("type=<%s>" % node["type"].get("qualType"))
        if "desugaredQualType" in node["type"]:
            bits.append("desugar=<%s>" % node["type"]["desugaredQualType"])
    if "referencedDecl" in node:
        rd = node["referencedDecl"]
        bits.append("ref=%s:%s" % (rd.get("kind"), rd.get("name")))
    if "referencedMemberDecl" in node:
        bits.append("member=%s" % node["referencedMemberDecl"])
    if node.get("isArrow"):
        bits.append("arrow")
    out.write("  " * depth + " ".join(str(b) for b in bits) + "\n")
    if depth < maxdepth:
        for c in node.get("inner", []) or []:
            if isinstance(c, dict) and c:
                show(c, depth + 1, maxdepth, out)
            else:
                out.write("  " * (depth + 1) + "<null>\n")
