"""Type model of cxx2c: parse clang qualType strings into a small type algebra and name them in C.

Types are tuples:
  ('int', bits, signed) ('bool',) ('double',) ('float',) ('void',)
  ('ptr', T) ('ref', T) ('rec', qualified_name) ('enum', qualified_name)
  ('vec', T) ('opt', T) ('pair', A, B) ('str',) ('arr', T, n)
  ('tuple', T...)  (only as the type of a std::tie(...) call)
  ('opaque', text) (types we never materialise: allocators, function types, streams)
"""
import re

class Unsupported(Exception):
    """Extraction break: the real code uses something the translator has no rule for."""

BUILTINS = {
    'bool': ('bool',), 'void': ('void',), 'double': ('double',), 'float': ('float',),
    'char': ('int', 8, True), 'signed char': ('int', 8, True), 'unsigned char': ('int', 8, False),
    'short': ('int', 16, True), 'unsigned short': ('int', 16, False),
    'int': ('int', 32, True), 'unsigned int': ('int', 32, False), 'unsigned': ('int', 32, False),
    'long': ('int', 64, True), 'unsigned long': ('int', 64, False),
    'long long': ('int', 64, True), 'unsigned long long': ('int', 64, False),
    'std::byte': ('int', 8, False),
    # typedef fallbacks (clang normally desugars them for us)
    'int8_t': ('int', 8, True), 'uint8_t': ('int', 8, False), 'int16_t': ('int', 16, True),
    'uint16_t': ('int', 16, False), 'int32_t': ('int', 32, True), 'uint32_t': ('int', 32, False),
    'int64_t': ('int', 64, True), 'uint64_t': ('int', 64, False), 'size_t': ('int', 64, False),
    'std::size_t': ('int', 64, False), 'ptrdiff_t': ('int', 64, True), 'std::ptrdiff_t': ('int', 64, True),
    'uInt': ('int', 32, False), 'uLong': ('int', 64, False), 'Bytef': ('int', 8, False), 'Byte': ('int', 8, False),
    'std::vector::size_type': ('int', 64, False), 'size_type': ('int', 64, False),
    'std::basic_string::size_type': ('int', 64, False),
    'std::nullptr_t': ('ptr', ('void',)), 'nullptr_t': ('ptr', ('void',)),
}
# The long long / long distinction matters to C only through printf; both are 64-bit here (LP64).

# records defined outside djinterop whose C definition comes from a model header
EXTERNAL_RECORDS = {'z_stream': 'z_stream', 'z_stream_s': 'z_stream'}

_tok = re.compile(r'\s*(::|<|>|,|\*|&&|&|\(|\)|\[|\]|[A-Za-z_][A-Za-z_0-9]*|\d+|\.\.\.)')

def tokenize(s):
    out, i = [], 0
    s = s.strip()
    while i < len(s):
        m = _tok.match(s, i)
        if not m:
            raise Unsupported("cannot tokenise type %r at %d" % (s, i))
        out.append(m.group(1))
        i = m.end()
    return out

class TypeParser:
    def __init__(self, known_records, known_enums, aliases=None):
        self.records = known_records   # set of qualified names
        self.enums = known_enums       # dict qualified name -> underlying type
        self.aliases = aliases or {}   # qualified alias -> type string

    def parse(self, s):
        if s.startswith('(lambda at ') or '(lambda at ' in s:
            return ('opaque', s)
        # the cursor lives in a per-call copy: checks translate functions on several threads
        import copy
        inst = copy.copy(self)
        inst.toks = tokenize(s.replace('(anonymous namespace)', 'ANON_NS_').replace('(anonymous)', 'ANON_NS_'))
        inst.i = 0
        t = inst._type()
        if inst.i != len(inst.toks):
            # function types etc.
            return ('opaque', s)
        return t

    def _peek(self):
        return self.toks[self.i] if self.i < len(self.toks) else None

    def _type(self):
        words = []
        targs = None
        name_parts = []
        # leading cv / builtin words / qualified name with optional template args
        while True:
            t = self._peek()
            if t is None:
                break
            if t in ('const', 'volatile', 'struct', 'class', 'enum', 'typename'):
                self.i += 1
                continue
            if re.match(r'\d+$', t) and not words and not name_parts:
                # non-type template argument (std::ratio<1, 1000>)
                self.i += 1
                return ('num', int(t))
            if re.match(r'[A-Za-z_]', t):
                self.i += 1
                if t in ('unsigned', 'signed', 'long', 'short', 'int', 'char', 'double', 'float', 'bool', 'void') and not name_parts:
                    words.append(t)
                    continue
                if words:
                    raise Unsupported("mixed builtin/name in type: %r" % self.toks)
                name_parts.append(t)
                # qualified name continuation
                while self._peek() == '::' or self._peek() == '<':
                    if self._peek() == '::':
                        self.i += 1
                        nxt = self._peek()
                        self.i += 1
                        name_parts.append(nxt)
                        targs_inner = None
                    else:
                        self.i += 1
                        args = []
                        if self._peek() == '>':
                            self.i += 1
                        else:
                            while True:
                                args.append(self._type())
                                p = self._peek()
                                self.i += 1
                                if p == '>':
                                    break
                                if p != ',':
                                    raise Unsupported("bad template args in %r" % self.toks)
                        # template args attach to the name so far; a following ::member is a nested name
                        name_parts[-1] = (name_parts[-1], tuple(args))
                break
            break
        if words:
            key = ' '.join(w for w in words if w not in ('int',) or len(words) == 1 or words == ['unsigned', 'int'])
            key = ' '.join(words)
            key = {'long int': 'long', 'unsigned long int': 'unsigned long', 'long unsigned int': 'unsigned long',
                   'long long int': 'long long', 'unsigned long long int': 'unsigned long long',
                   'short int': 'short', 'unsigned short int': 'unsigned short', 'long unsigned': 'unsigned long',
                   'signed int': 'int'}.get(key, key)
            if key not in BUILTINS:
                raise Unsupported("unknown builtin type %r" % key)
            base = BUILTINS[key]
        elif name_parts:
            base = self._named(name_parts)
        else:
            raise Unsupported("empty type in %r" % self.toks)
        # suffixes
        while True:
            t = self._peek()
            if t in ('const', 'volatile', '__restrict'):
                self.i += 1
            elif t == '*':
                self.i += 1
                base = ('ptr', base)
            elif t == '&' or t == '&&':
                self.i += 1
                base = ('ref', base)
            elif t == '[':
                self.i += 1
                n = int(self._peek())
                self.i += 2
                base = ('arr', base, n)
            else:
                break
        return base

    def _named(self, parts):
        plain = '::'.join(p if isinstance(p, str) else p[0] for p in parts).replace('ANON_NS_', '(anonymous namespace)')
        last = parts[-1]
        targs = last[1] if isinstance(last, tuple) else None
        # template args on a non-last component (e.g. std::vector<T>::size_type)
        inner_t = [p for p in parts[:-1] if isinstance(p, tuple)]
        lastname = last if isinstance(last, str) else last[0]
        if inner_t:
            owner = inner_t[-1]
            if lastname in ('size_type',):
                return ('int', 64, False)
            if lastname in ('difference_type',):
                return ('int', 64, True)
            if lastname in ('iterator', 'const_iterator') and owner[0] == 'vector':
                return ('ptr', owner[1][0])
            if lastname in ('value_type', 'reference', 'const_reference') and owner[0] in ('vector', 'optional'):
                return owner[1][0]
            if lastname == 'value_type' and owner[0] == '__alloc_traits' and len(owner[1]) == 2:
                return owner[1][1]
            return ('opaque', plain)
        std_name = plain[5:] if plain.startswith('std::') else plain
        std_name = re.sub(r'^__cxx11::', '', std_name)
        if targs is not None:
            if std_name == 'vector':
                return ('vec', targs[0])
            if std_name == 'optional':
                return ('opt', targs[0])
            if std_name == 'pair':
                return ('pair', targs[0], targs[1])
            if std_name == 'tuple':
                return ('tuple',) + tuple(targs)
            if std_name == 'basic_string':
                if targs[0] != ('int', 8, True):
                    raise Unsupported("non-char string")
                return ('str',)
            if std_name in ('__normal_iterator', '__gnu_cxx::__normal_iterator'):
                t0 = targs[0]
                return t0 if t0[0] == 'ptr' else ('ptr', t0)
            if std_name in ('decay_t', 'remove_reference_t', 'remove_cv_t', 'remove_const_t'):
                t0 = targs[0]
                return t0[1] if t0[0] == 'ref' else t0
            if std_name in ('chrono::duration', 'chrono::time_point', 'chrono::_V2::system_clock::time_point'):
                # a tick count: durations and time points are 64-bit signed integers; conversions BETWEEN units have no
                # rule (duration_cast etc. are extraction breaks), so the unit never matters
                return ('int', 64, True)
            return ('opaque', plain)
        if plain in BUILTINS:
            return BUILTINS[plain]
        if plain in ('std::string', 'string'):
            return ('str',)
        if plain in ('std::chrono::milliseconds', 'std::chrono::seconds', 'std::chrono::nanoseconds', 'std::chrono::microseconds',
                     'std::chrono::system_clock::time_point', 'std::chrono::_V2::system_clock::time_point',
                     'system_clock::time_point', 'milliseconds', 'seconds', 'chrono::milliseconds', 'chrono::system_clock::time_point'):
            return ('int', 64, True)
        if plain in EXTERNAL_RECORDS:
            return ('ext', EXTERNAL_RECORDS[plain])
        if plain in self.aliases:
            return self.aliases[plain]
        q = self.resolve(plain)
        if q is None:
            # partially qualified alias (beat_data_blob::beat_grid_marker_blobs_type)
            al = [a for a in self.aliases if a.endswith('::' + plain)]
            if len(set(map(repr, (self.aliases[a] for a in al)))) == 1:
                return self.aliases[al[0]]
        if q is not None:
            if q in self.enums:
                return ('enum', q)
            return ('rec', q)
        return ('opaque', plain)

    def resolve(self, name):
        if name in self.records or name in self.enums:
            return name
        cands = [q for q in list(self.records) + list(self.enums) if q.endswith('::' + name)]
        if len(cands) == 1:
            return cands[0]
        if len(cands) > 1:
            # prefer the shortest qualified name (outermost); ambiguity is an extraction break only if used
            cands.sort(key=len)
            return cands[0]
        return None


def mangle(q):
    q = q.replace('djinterop::', '').replace('(anonymous namespace)::', 'anon_').replace('(anonymous)::', 'anon_')
    return re.sub(r'[^A-Za-z0-9_]', '_', q.replace('::', '_'))

def cname(t):
    """C spelling of a type (a typedef name for composite types)."""
    k = t[0]
    if k == 'int':
        return '%sint%d_t' % ('' if t[2] else 'u', t[1])
    if k == 'bool':
        return '_Bool'
    if k in ('double', 'float', 'void'):
        return k
    if k in ('ptr', 'ref'):
        return cname(t[1]) + '*'
    if k == 'rec':
        return mangle(t[1])
    if k == 'enum':
        return mangle(t[1])
    if k == 'vec':
        return 'vec_' + tag(t[1])
    if k == 'opt':
        return 'opt_' + tag(t[1])
    if k == 'pair':
        return 'pair_%s_%s' % (tag(t[1]), tag(t[2]))
    if k == 'str':
        return 'str_t'
    if k == 'ext':
        return t[1]
    if k == 'arr':
        raise Unsupported("array type has no standalone C name")
    raise Unsupported("no C name for type %r" % (t,))

def tag(t):
    k = t[0]
    if k == 'int':
        return '%s%d' % ('i' if t[2] else 'u', t[1])
    if k == 'bool':
        return 'bool'
    if k in ('double', 'float', 'void'):
        return k
    if k in ('ptr', 'ref'):
        return 'p' + tag(t[1])
    if k in ('rec', 'enum'):
        return mangle(t[1])
    if k == 'vec':
        return 'vec_' + tag(t[1])
    if k == 'opt':
        return 'opt_' + tag(t[1])
    if k == 'pair':
        return 'pair_%s_%s' % (tag(t[1]), tag(t[2]))
    if k == 'str':
        return 'str'
    if k == 'ext':
        return t[1]
    raise Unsupported("no tag for type %r" % (t,))

def strip_ref(t):
    return t[1] if t[0] == 'ref' else t

def is_owning(t, records):
    """Does a value of this type own heap storage (needs deep copy)?"""
    k = t[0]
    if k in ('vec', 'str'):
        return True
    if k == 'opt':
        return is_owning(t[1], records)
    if k == 'pair':
        return is_owning(t[1], records) or is_owning(t[2], records)
    if k == 'rec':
        r = records.get(t[1])
        return bool(r) and any(is_owning(ft, records) for _, ft, _ in r['fields'])
    return False
