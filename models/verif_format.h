/* THE FORMAT DESCRIPTION used by the content contracts (C02 / C03 / C04).
 * Written from the Engine performance-data layout (field order, widths, endianness), not from the C++:
 *   - all integers two's complement, doubles IEEE-754 binary64 bit patterns
 *   - "be" = most significant byte first, "le" = least significant byte first
 * Each REC_* predicate relates the bytes at p to a logical value, field by field.  The same predicate is asserted
 * after the ENCODER wrote a record (bytes determined by the value) and after the DECODER read one (value determined
 * by the bytes); every field relation is a bijection between the field's bit pattern and its bytes, so the
 * self round trip (C03) and the re-encoding of a decoded blob (C04) follow field by field.
 * Included only when compiling for cbmc; never part of the translated code. */
#ifndef VERIF_FORMAT_H
#define VERIF_FORMAT_H
#define U8(p, i) ((uint64_t)(uint8_t)(p)[i])
#define LD_BE32(p) ((uint32_t)((U8(p,0) << 24) | (U8(p,1) << 16) | (U8(p,2) << 8) | U8(p,3)))
#define LD_LE32(p) ((uint32_t)((U8(p,3) << 24) | (U8(p,2) << 16) | (U8(p,1) << 8) | U8(p,0)))
#define LD_BE64(p) ((uint64_t)((U8(p,0) << 56) | (U8(p,1) << 48) | (U8(p,2) << 40) | (U8(p,3) << 32) | (U8(p,4) << 24) | (U8(p,5) << 16) | (U8(p,6) << 8) | U8(p,7)))
#define LD_LE64(p) ((uint64_t)((U8(p,7) << 56) | (U8(p,6) << 48) | (U8(p,5) << 40) | (U8(p,4) << 32) | (U8(p,3) << 24) | (U8(p,2) << 16) | (U8(p,1) << 8) | U8(p,0)))
static uint64_t verif_bits(double d) { uint64_t u; __CPROVER_assert(sizeof(u) == sizeof(d), "spec: double is 64 bit"); memcpy(&u, &d, 8); return u; }
#define BITS(d) verif_bits(d)


/* executable form of the same byte orders (used by the contract stubs of the encoders: cheaper for the solver than
 * havoc + assume, and equivalent because the postcondition determines every written byte) */
#define ST_U8(p, v) { (p)[0] = (uint8_t)(v); }
#define ST_LE32(p, v) { uint32_t __v = (uint32_t)(v); (p)[0] = (uint8_t)__v; (p)[1] = (uint8_t)(__v >> 8); (p)[2] = (uint8_t)(__v >> 16); (p)[3] = (uint8_t)(__v >> 24); }
#define ST_BE32(p, v) { uint32_t __v = (uint32_t)(v); (p)[3] = (uint8_t)__v; (p)[2] = (uint8_t)(__v >> 8); (p)[1] = (uint8_t)(__v >> 16); (p)[0] = (uint8_t)(__v >> 24); }
#define ST_LE64(p, v) { uint64_t __w = (uint64_t)(v); ST_LE32(p, __w); ST_LE32((p) + 4, __w >> 32); }
#define ST_BE64(p, v) { uint64_t __w = (uint64_t)(v); ST_BE32(p, __w >> 32); ST_BE32((p) + 4, __w); }
#define CONTENT(cond, name) __CPROVER_assert((cond), "content: " name)
#define F64LE(p, off, x) (LD_LE64((p) + (off)) == BITS(x))
#define F64BE(p, off, x) (LD_BE64((p) + (off)) == BITS(x))
#define I64LE(p, off, x) (LD_LE64((p) + (off)) == (uint64_t)(x))
#define I64BE(p, off, x) (LD_BE64((p) + (off)) == (uint64_t)(x))
#define I32LE(p, off, x) (LD_LE32((p) + (off)) == (uint32_t)(x))
#define I32BE(p, off, x) (LD_BE32((p) + (off)) == (uint32_t)(x))
#define U8AT(p, off, x)  ((p)[off] == (uint8_t)(x))

/* ---- schema 2.x ------------------------------------------------------------------------------------------------ */
/* beat grid marker, 24 bytes:  f64le sample offset | i64le beat number | i32le beats until next marker | i32le unknown */
#define REC_V2_MARKER(p, m) (F64LE(p, 0, (m).sample_offset) && I64LE(p, 8, (m).beat_number) && I32LE(p, 16, (m).number_of_beats) && I32LE(p, 20, (m).unknown_value_1))
/* beat data header, 17 bytes:  f64be sample rate | f64be sample count | u8 "is beat grid set" ; then two grids (i64be count + markers) ; then extra */
#define REC_V2_BEAT_HEADER(p, b) (F64BE(p, 0, (b).sample_rate) && F64BE(p, 8, (b).samples) && U8AT(p, 16, (b).is_beatgrid_set))
/* track data, 44 bytes: f64be sample rate | i64be samples | i32be key | f64be loudness low | mid | high ; then extra */
#define REC_V2_TRACK_DATA(p, t) (F64BE(p, 0, (t).sample_rate) && I64BE(p, 8, (t).samples) && I32BE(p, 16, (t).key) && F64BE(p, 20, (t).average_loudness_low) && F64BE(p, 28, (t).average_loudness_mid) && F64BE(p, 36, (t).average_loudness_high))
/* overview waveform: i64be n | i64be n | f64be samples per point | n x {u8 low, u8 mid, u8 high} | {u8 low, mid, high} maximum ; then extra */
#define REC_V2_OVERVIEW_HEADER(p, n, w) (I64BE(p, 0, n) && I64BE(p, 8, n) && F64BE(p, 16, (w).samples_per_waveform_point))
#define REC_V2_OVERVIEW_POINT(p, e) (U8AT(p, 0, (e).low_value) && U8AT(p, 1, (e).mid_value) && U8AT(p, 2, (e).high_value))
/* quick cue: u8 label length L | L label bytes | f64be sample offset | u8 alpha | u8 red | u8 green | u8 blue   (13 + L bytes) */
#define REC_V2_QUICK_CUE_TAIL(p, c) (F64BE(p, 0, (c).sample_offset) && U8AT(p, 8, (c).color.a) && U8AT(p, 9, (c).color.r) && U8AT(p, 10, (c).color.g) && U8AT(p, 11, (c).color.b))
/* quick cues footer, 17 bytes: f64be adjusted main cue | u8 "is main cue adjusted" | f64be default main cue ; then extra */
#define REC_V2_QUICK_CUES_FOOTER_ENC(p, q) (F64BE(p, 0, (q).adjusted_main_cue) && U8AT(p, 8, (q).is_main_cue_adjusted ? 1 : 0) && F64BE(p, 9, (q).default_main_cue))
#define REC_V2_QUICK_CUES_FOOTER_DEC(p, q) (F64BE(p, 0, (q).adjusted_main_cue) && ((q).is_main_cue_adjusted == ((p)[8] != 0)) && F64BE(p, 9, (q).default_main_cue))
/* loop: u8 label length L | L label bytes | f64le start | f64le end | u8 start set | u8 end set | u8 alpha | red | green | blue  (23 + L bytes) */
#define REC_V2_LOOP_TAIL(p, l) (F64LE(p, 0, (l).start_sample_offset) && F64LE(p, 8, (l).end_sample_offset) && U8AT(p, 16, (l).is_start_set) && U8AT(p, 17, (l).is_end_set) && U8AT(p, 18, (l).color.a) && U8AT(p, 19, (l).color.r) && U8AT(p, 20, (l).color.g) && U8AT(p, 21, (l).color.b))
/* double with a given bit pattern (for contracts that compare a decoded value with 0 or -1) */
static double verif_from_bits(uint64_t u) { double d; memcpy(&d, &u, 8); return d; }
#define FROM_BITS(u) verif_from_bits(u)
/* frame of one loop iteration: every byte of the buffer outside [lo, hi) keeps its value */
#define ITER_FRAME_PRE(p) uint8_t* __fb = (uint8_t*)(p) - __CPROVER_POINTER_OFFSET(p); size_t __fj = nondet_size_t(); __CPROVER_assume(__fj < __CPROVER_OBJECT_SIZE(p)); uint8_t __fold = __fb[__fj];
#define ITER_FRAME_OK(lo, hi) ((__fj >= __CPROVER_POINTER_OFFSET(lo) && __fj < __CPROVER_POINTER_OFFSET(hi)) || __fb[__fj] == __fold)
#endif
