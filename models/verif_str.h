/* std::string model: {data,size}. TRUSTED. */
#ifndef VERIF_STR_H
#define VERIF_STR_H
typedef struct str_t { int8_t* data; size_t size; } str_t;
#if defined(VERIF_CBMC) && defined(VERIF_ABSTRACT)
static void str_assign_n(str_t* s, const int8_t* p, size_t n) { VERIF_ASSERT(n == 0 || __CPROVER_r_ok(p, n), "model: string::assign source readable"); s->data = (int8_t*)malloc(n ? n : 1); VERIF_ASSUME(s->data != 0); s->size = n; }
static str_t str_copy(const str_t* a) { str_t r; r.data = (int8_t*)malloc(a->size ? a->size : 1); VERIF_ASSUME(r.data != 0); r.size = a->size; return r; }
static _Bool str_eq(const str_t* a, const str_t* b) { if (a->size != b->size) return 0; return nondet_bool(); }
#else
static void str_assign_n(str_t* s, const int8_t* p, size_t n) { s->data = (int8_t*)verif_alloc(n, 1); for (size_t i = 0; i < n; ++i) VERIF_MODEL_LOOP s->data[i] = p[i]; s->size = n; }
static str_t str_copy(const str_t* a) { str_t r; r.data = (int8_t*)verif_alloc(a->size, 1); for (size_t i = 0; i < a->size; ++i) VERIF_MODEL_LOOP r.data[i] = a->data[i]; r.size = a->size; return r; }
static _Bool str_eq(const str_t* a, const str_t* b) { if (a->size != b->size) return 0; for (size_t i = 0; i < a->size; ++i) VERIF_MODEL_LOOP if (a->data[i] != b->data[i]) return 0; return 1; }
#endif
static int8_t* str_index(const str_t* s, size_t i) { VERIF_ASSERT(i <= s->size, "check: string index in range"); return &s->data[i]; }
#define str_from_lit(lit) ((str_t){ (int8_t*)(lit), sizeof(lit) - 1 })
#endif
