/* std::string model: {data,size}. TRUSTED. */
#ifndef VERIF_STR_H
#define VERIF_STR_H
/* tag: ghost identity of the literal(s) a string was built from (0 = none); tag' = tag * 64 + literal id */
typedef struct str_t { int8_t* data; size_t size; uint64_t tag; } str_t;
#if defined(VERIF_CBMC) && defined(VERIF_ABSTRACT)
static void str_assign_n(str_t* s, const int8_t* p, size_t n) { VERIF_ASSERT(n == 0 || __CPROVER_r_ok(p, n), "model: string::assign source readable"); s->data = (int8_t*)malloc(n ? n : 1); VERIF_ASSUME(s->data != 0); s->size = n; s->tag = 0;
  /* assign copies every byte: stated for the arbitrary ghost position verif_g */ if (verif_g < n) s->data[verif_g] = p[verif_g]; }
#ifdef VERIF_STR_TOKENS
/* contracts that compare strings by provenance (option strtokens, see verif_track.h): a copy has the same size and the same
 * token and fresh storage; its bytes are left arbitrary (an over-approximation).  No source byte is read, so the unconstrained
 * elements of an abstract vector (whose strings may be invalid pointers, which no real execution has) do not matter. */
static str_t str_copy(const str_t* a) { str_t r; r.data = (int8_t*)malloc(a->size ? a->size : 1); VERIF_ASSUME(r.data != 0); r.size = a->size; r.tag = a->tag; return r; }
#else
static str_t str_copy(const str_t* a) { str_t r; r.data = (int8_t*)malloc(a->size ? a->size : 1); VERIF_ASSUME(r.data != 0); r.size = a->size; r.tag = a->tag; if (verif_g < a->size) r.data[verif_g] = a->data[verif_g]; return r; }
#endif
static _Bool str_eq(const str_t* a, const str_t* b) { if (a->size != b->size) return 0; return nondet_bool(); }
#else
static void str_assign_n(str_t* s, const int8_t* p, size_t n) { s->data = (int8_t*)verif_alloc(n, 1); for (size_t i = 0; i < n; ++i) VERIF_MODEL_LOOP s->data[i] = p[i]; s->size = n; }
static str_t str_copy(const str_t* a) { str_t r; r.data = (int8_t*)verif_alloc(a->size, 1); for (size_t i = 0; i < a->size; ++i) VERIF_MODEL_LOOP r.data[i] = a->data[i]; r.size = a->size; r.tag = a->tag; return r; }
static _Bool str_eq(const str_t* a, const str_t* b) { if (a->size != b->size) return 0; for (size_t i = 0; i < a->size; ++i) VERIF_MODEL_LOOP if (a->data[i] != b->data[i]) return 0; return 1; }
#endif
static int8_t* str_index(const str_t* s, size_t i) { VERIF_ASSERT(i <= s->size, "check: string index in range"); return &s->data[i]; }
#define str_from_lit(lit, id) ((str_t){ (int8_t*)(lit), sizeof(lit) - 1, (id) })
#if defined(VERIF_CBMC) && defined(VERIF_ABSTRACT)
static str_t str_concat_lit_n(const str_t* a, const char* lit, size_t n, uint64_t id) { str_t r; r.size = a->size + n; r.data = (int8_t*)malloc(r.size ? r.size : 1); VERIF_ASSUME(r.data != 0); r.tag = a->tag * 64 + id; return r; }
#else
static str_t str_concat_lit_n(const str_t* a, const char* lit, size_t n, uint64_t id) { str_t r; r.size = a->size + n; r.data = (int8_t*)verif_alloc(r.size, 1);
  for (size_t i = 0; i < a->size; ++i) VERIF_MODEL_LOOP { r.data[i] = a->data[i]; } for (size_t i = 0; i < n; ++i) VERIF_MODEL_LOOP { r.data[a->size + i] = lit[i]; } r.tag = a->tag * 64 + id; return r; }
#endif
#define str_concat_lit(a, lit, id) str_concat_lit_n((a), (lit), sizeof(lit) - 1, (id))
#endif
