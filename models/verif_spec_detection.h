/* Spec vocabulary for C13 (harness side only).
 * SCHEMA_TABLE / SCHEMA_SUPPORTED are transcribed from include/djinterop/engine/engine_schema.hpp:
 * one row per enumerator, keyed by the version string its to_string() documents ("1.6.0", ..., "1.18.0 (Desktop)",
 * "1.18.0 (OS)", ..., "3.0.0"); the 1.18.0 variants are told apart by the documented marker: the declared type of
 * Track.isExternalTrack is NUMERIC on desktop databases. */
#ifndef VERIF_SPEC_DETECTION_H
#define VERIF_SPEC_DETECTION_H
#ifdef VERIF_NEED_COLTYPE
opt_str verif_coltype;   /* ghost: what the (assumed) column-type query answered */
#define COLTYPE_IS_NUMERIC (verif_coltype.has && verif_coltype.val.size == 7 && verif_coltype.val.data[0] == 'N' && verif_coltype.val.data[1] == 'U' && \
  verif_coltype.val.data[2] == 'M' && verif_coltype.val.data[3] == 'E' && verif_coltype.val.data[4] == 'R' && verif_coltype.val.data[5] == 'I' && verif_coltype.val.data[6] == 'C')
#define S_(x) engine_engine_schema_##x
#define V_(a, b, c, A, B, C) ((a) == (A) && (b) == (B) && (c) == (C))
#define SCHEMA_SUPPORTED(a, b, c) ( \
  V_(a,b,c,1,6,0) || V_(a,b,c,1,7,1) || V_(a,b,c,1,9,1) || V_(a,b,c,1,11,1) || V_(a,b,c,1,13,0) || V_(a,b,c,1,13,1) || V_(a,b,c,1,13,2) || \
  V_(a,b,c,1,15,0) || V_(a,b,c,1,17,0) || V_(a,b,c,1,18,0) || V_(a,b,c,2,18,0) || V_(a,b,c,2,20,1) || V_(a,b,c,2,20,2) || V_(a,b,c,2,20,3) || \
  V_(a,b,c,2,21,0) || V_(a,b,c,2,21,1) || V_(a,b,c,2,21,2) || V_(a,b,c,3,0,0))
#define SCHEMA_TABLE(a, b, c) ( \
  V_(a,b,c,1,6,0) ? S_(schema_1_6_0) : V_(a,b,c,1,7,1) ? S_(schema_1_7_1) : V_(a,b,c,1,9,1) ? S_(schema_1_9_1) : \
  V_(a,b,c,1,11,1) ? S_(schema_1_11_1) : V_(a,b,c,1,13,0) ? S_(schema_1_13_0) : V_(a,b,c,1,13,1) ? S_(schema_1_13_1) : \
  V_(a,b,c,1,13,2) ? S_(schema_1_13_2) : V_(a,b,c,1,15,0) ? S_(schema_1_15_0) : V_(a,b,c,1,17,0) ? S_(schema_1_17_0) : \
  V_(a,b,c,1,18,0) ? (COLTYPE_IS_NUMERIC ? S_(schema_1_18_0_desktop) : S_(schema_1_18_0_os)) : \
  V_(a,b,c,2,18,0) ? S_(schema_2_18_0) : V_(a,b,c,2,20,1) ? S_(schema_2_20_1) : V_(a,b,c,2,20,2) ? S_(schema_2_20_2) : \
  V_(a,b,c,2,20,3) ? S_(schema_2_20_3) : V_(a,b,c,2,21,0) ? S_(schema_2_21_0) : V_(a,b,c,2,21,1) ? S_(schema_2_21_1) : \
  V_(a,b,c,2,21,2) ? S_(schema_2_21_2) : V_(a,b,c,3,0,0) ? S_(schema_3_0_0) : -1)
#endif
#ifdef VERIF_NEED_FS
/* ghost file system: does the directory / <dir>/m.db / <dir>/Database2/m.db exist */
_Bool verif_fs_dir, verif_fs_legacy, verif_fs_db2, verif_fs_unknown_path_queried;
uint64_t verif_fs_tag_legacy, verif_fs_tag_db2;
static _Bool verif_fs_lookup(uint64_t tag)
{
  if (tag == 0) return verif_fs_dir;
  if (tag == verif_fs_tag_legacy) return verif_fs_legacy;
  if (tag == verif_fs_tag_db2) return verif_fs_db2;
  verif_fs_unknown_path_queried = 1;   /* a path the layout rule does not mention was consulted */
  return nondet_bool();
}
#endif
#endif
