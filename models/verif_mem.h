/* memcpy. TRUSTED.  memcpy(d, s, 0) with a null d or s (empty vector's data()) is not reported: it is formally UB in
 * C17 7.24.1p2 but defined as a no-op by every libc and by C2y (N3322); see DESIGN.md 2.3. */
#ifndef VERIF_MEM_H
#define VERIF_MEM_H
#if defined(VERIF_CBMC) && defined(VERIF_ABSTRACT)
static void* verif_memcpy_(void* d, const void* s, size_t n)
{
  if (n != 0) {
    VERIF_ASSERT(__CPROVER_r_ok(s, n), "check: memcpy source readable");
    VERIF_ASSERT(__CPROVER_w_ok(d, n), "check: memcpy destination writable");
    if (n <= 16) { /* short copies (the 8-byte double<->int64 punning) are exact */
      for (size_t i = 0; i < 16; ++i) if (i < n) ((char*)d)[i] = ((const char*)s)[i];
    } else {
      __CPROVER_havoc_slice(d, n);   /* contents abstracted, except at the ghost index: memcpy copies every byte, */
      if (verif_g < n) __CPROVER_assume(((char*)d)[verif_g] == ((const char*)s)[verif_g]);   /* in particular byte verif_g */
    }
  }
  return d;
}
#elif defined(VERIF_CBMC)
static void* verif_memcpy_(void* d, const void* s, size_t n)
{
  for (size_t i = 0; i < n; ++i) VERIF_MODEL_LOOP ((char*)d)[i] = ((const char*)s)[i];
  return d;
}
#else
static void* verif_memcpy_(void* d, const void* s, size_t n) { if (n) memcpy(d, s, n); return d; }
#endif
/* bulk copies appear in the ghost call log: fn = FN_MEMCPY / FN_STRNCPY / FN_MEMSET, p[0] = destination, p[1] = source, v[2] = length */
#define FN_MEMCPY (-100)
#define FN_STRNCPY (-101)
#define FN_MEMSET (-102)
#if defined(VERIF_CBMC)
#define verif_memcpy(d, s, n) (verif_log_bulk(FN_MEMCPY, (d), (s), (n)), verif_memcpy_((d), (s), (n)))
static int verif_log_bulk(int fn, const void* d, const void* s, size_t n) { VERIF_LOG_CALL(fn, d, s, 0, 0, 0, 0, (uint64_t)n, 0) VERIF_LOG_RET((const char*)d + n) return 0; }
/* strncpy: copies up to n bytes, stops at the first NUL of the source and zero-fills the rest (C17 7.24.2.4) */
static char* verif_strncpy(char* d, const char* s, size_t n)
{
  verif_log_bulk(FN_STRNCPY, d, s, n);
  if (n != 0) {
    VERIF_ASSERT(__CPROVER_w_ok(d, n), "check: strncpy destination writable");
#ifdef VERIF_ABSTRACT
    __CPROVER_havoc_slice(d, n);   /* contents abstracted: which bytes are copied depends on where the source has a NUL */
#else
    _Bool z = 0; for (size_t i = 0; i < n; ++i) VERIF_MODEL_LOOP { if (!z && s[i] == 0) z = 1; d[i] = z ? 0 : s[i]; }
#endif
  }
  return d;
}
static void* verif_memset(void* d, int c, size_t n)
{
  verif_log_bulk(FN_MEMSET, d, 0, n);
  if (n != 0) { VERIF_ASSERT(__CPROVER_w_ok(d, n), "check: memset destination writable"); __CPROVER_havoc_slice(d, n); if (verif_g < n) ((unsigned char*)d)[verif_g] = (unsigned char)c; }
  return d;
}
#else
#define verif_memcpy(d, s, n) verif_memcpy_((d), (s), (n))
#define verif_strncpy strncpy
#define verif_memset memset
#endif
#endif
