/* memcpy. TRUSTED.  memcpy(d, s, 0) with a null d or s (empty vector's data()) is not reported: it is formally UB in
 * C17 7.24.1p2 but defined as a no-op by every libc and by C2y (N3322); see DESIGN.md 2.3. */
#ifndef VERIF_MEM_H
#define VERIF_MEM_H
#if defined(VERIF_CBMC) && defined(VERIF_ABSTRACT)
static void* verif_memcpy(void* d, const void* s, size_t n)
{
  if (n != 0) {
    VERIF_ASSERT(__CPROVER_r_ok(s, n), "check: memcpy source readable");
    VERIF_ASSERT(__CPROVER_w_ok(d, n), "check: memcpy destination writable");
    if (n <= 16) { /* short copies (the 8-byte double<->int64 punning) are exact */
      for (size_t i = 0; i < 16; ++i) if (i < n) ((char*)d)[i] = ((const char*)s)[i];
    } else {
      __CPROVER_havoc_slice(d, n);   /* contents abstracted, except at the ghost index: memcpy copies every byte, */
      if (verif_g < n) __CPROVER_assume(((char*)d)[verif_g] == ((const char*)s)[verif_g]);   /* in particular byte verif_g */
    }
  }
  return d;
}
#elif defined(VERIF_CBMC)
static void* verif_memcpy(void* d, const void* s, size_t n)
{
  for (size_t i = 0; i < n; ++i) VERIF_MODEL_LOOP ((char*)d)[i] = ((const char*)s)[i];
  return d;
}
#else
static void* verif_memcpy(void* d, const void* s, size_t n) { if (n) memcpy(d, s, n); return d; }
#endif
#endif
