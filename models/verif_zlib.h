/* zlib: natively the real library; under cbmc an ASSUMED contract transcribed from zlib.h's manual text,
 * plus a ghost monitor that turns "the whole input is fed exactly once, in order, Z_FINISH last" into assertions.
 * TRUSTED: zlib's own memory safety and inflate(deflate(x)) == x are not verified here. */
#ifndef VERIF_ZLIB_H
#define VERIF_ZLIB_H
#ifndef VERIF_CBMC
#include <zlib.h>
#define verif_inflateInit_ inflateInit_
#define verif_inflate inflate
#define verif_inflateEnd inflateEnd
#define verif_deflateInit_ deflateInit_
#define verif_deflate deflate
#define verif_deflateEnd deflateEnd
#else
typedef struct z_stream_s {
  uint8_t* next_in; uint32_t avail_in; uint64_t total_in;
  uint8_t* next_out; uint32_t avail_out; uint64_t total_out;
  char* msg; void* state; void* zalloc; void* zfree; void* opaque;
  int data_type; uint64_t adler; uint64_t reserved;
} z_stream;
#define Z_OK 0
#define Z_STREAM_END 1
#define Z_NEED_DICT 2
#define Z_ERRNO (-1)
#define Z_STREAM_ERROR (-2)
#define Z_DATA_ERROR (-3)
#define Z_MEM_ERROR (-4)
#define Z_BUF_ERROR (-5)
#define Z_VERSION_ERROR (-6)
#define Z_NO_FLUSH 0
#define Z_FINISH 4

/* ghost state of the (single) live stream */
int verif_z_state = 0;            /* 0 = none, 1 = initialised, 2 = stream end reached */
size_t verif_z_out_left;          /* bytes the stream can still produce: finite for every finite input */
const uint8_t* verif_z_src = 0;   /* monitor: where the caller's input starts (set by the harness; 0 = monitor off) */
size_t verif_z_src_len = 0;       /* monitor: its length */
size_t verif_z_pos = 0;           /* monitor: bytes consumed so far */
_Bool verif_z_finish_seen = 0;
int verif_z_leaks = 0;            /* Init without End on a path that leaves the function (resource leak, reported as class 'leak') */

/* goto-instrument's loop-contract pass makes every static nondet: the harness re-establishes the initial ghost state */
static void verif_zlib_reset(void)
{
  verif_z_state = 0; verif_z_src = 0; verif_z_src_len = 0; verif_z_pos = 0; verif_z_finish_seen = 0; verif_z_leaks = 0;
}
#define VERIF_ZLIB_RESET verif_zlib_reset();
static int verif_inflateInit_(z_stream* s, const char* version, int size)
{
  VERIF_ASSERT(verif_z_state == 0, "zlib: inflateInit on a fresh stream");
  VERIF_ASSERT(s->zalloc == 0 && s->zfree == 0 && s->opaque == 0, "zlib: zalloc/zfree/opaque initialised before inflateInit");
  VERIF_ASSERT(s->avail_in == 0 && s->next_in == 0, "zlib: next_in/avail_in initialised before inflateInit");
  int r = nondet_int();
  VERIF_ASSUME(r == Z_OK || r == Z_MEM_ERROR || r == Z_VERSION_ERROR || r == Z_STREAM_ERROR);
  if (r == Z_OK) { verif_z_state = 1; verif_z_out_left = nondet_size_t(); verif_z_leaks++; }
  return r;
}
static int verif_deflateInit_(z_stream* s, int level, const char* version, int size)
{
  VERIF_ASSERT(verif_z_state == 0, "zlib: deflateInit on a fresh stream");
  VERIF_ASSERT(s->zalloc == 0 && s->zfree == 0 && s->opaque == 0, "zlib: zalloc/zfree/opaque initialised before deflateInit");
  int r = nondet_int();
  VERIF_ASSUME(r == Z_OK || r == Z_MEM_ERROR || r == Z_VERSION_ERROR || r == Z_STREAM_ERROR);
  if (r == Z_OK) { verif_z_state = 1; verif_z_out_left = nondet_size_t(); verif_z_leaks++; }
  return r;
}
static void verif_z_io(z_stream* s, _Bool all_input_if_room)
{
  VERIF_ASSERT(s->avail_in == 0 || __CPROVER_r_ok(s->next_in, s->avail_in), "zlib: next_in[0,avail_in) readable");
  VERIF_ASSERT(s->avail_out == 0 || __CPROVER_w_ok(s->next_out, s->avail_out), "zlib: next_out[0,avail_out) writable");
  if (verif_z_src != 0)
    VERIF_ASSERT(s->avail_in == 0 || s->next_in == verif_z_src + verif_z_pos, "zlib framing: input is fed in order, without gap or repeat");
  uint32_t consumed = (uint32_t)nondet_size_t(), produced = (uint32_t)nondet_size_t();
  VERIF_ASSUME(consumed <= s->avail_in && produced <= s->avail_out && produced <= verif_z_out_left);
  if (all_input_if_room) VERIF_ASSUME(produced == s->avail_out || consumed == s->avail_in);
  /* over-approximation: the whole output object is havocked, not just [0, produced) (cheap for the solver) */
  if (produced != 0) __CPROVER_havoc_object(s->next_out);
  s->next_in += consumed; s->avail_in -= consumed; s->total_in += consumed;
  s->next_out += produced; s->avail_out -= produced; s->total_out += produced;
  verif_z_out_left -= produced; verif_z_pos += consumed;
}
static int verif_inflate(z_stream* s, int flush)
{
  VERIF_ASSERT(verif_z_state != 0, "zlib: inflate on an initialised stream");
  uint32_t in0 = s->avail_in, out0 = s->avail_out;
  int r = nondet_int();
  VERIF_ASSUME(r == Z_OK || r == Z_STREAM_END || r == Z_NEED_DICT || r == Z_DATA_ERROR || r == Z_MEM_ERROR || r == Z_BUF_ERROR);
  if (verif_z_state == 2) { VERIF_ASSUME(r == Z_STREAM_END); return r; }   /* a finished stream stays finished, no progress */
  verif_z_io(s, r == Z_OK);
  /* zlib.h: Z_OK "if some progress has been made"; Z_BUF_ERROR "if no progress was possible" */
  VERIF_ASSUME(r != Z_OK || s->avail_in != in0 || s->avail_out != out0);
  VERIF_ASSUME(r != Z_BUF_ERROR || (s->avail_in == in0 && s->avail_out == out0));
  /* progress is impossible only without input or without output space */
  VERIF_ASSUME(r != Z_BUF_ERROR || in0 == 0 || out0 == 0);
  if (r == Z_STREAM_END) verif_z_state = 2;
  return r;
}
static int verif_deflate(z_stream* s, int flush)
{
  VERIF_ASSERT(verif_z_state != 0, "zlib: deflate on an initialised stream");
  VERIF_ASSERT(!verif_z_finish_seen || flush == Z_FINISH, "zlib: after Z_FINISH only Z_FINISH may follow");
  if (verif_z_src != 0 && flush == Z_FINISH && !verif_z_finish_seen)
    VERIF_ASSERT(verif_z_pos + s->avail_in == verif_z_src_len, "zlib framing: Z_FINISH is given with the last chunk only");
  if (flush == Z_FINISH) verif_z_finish_seen = 1;
  uint32_t in0 = s->avail_in, out0 = s->avail_out;
  int r = nondet_int();
  VERIF_ASSUME(r == Z_OK || r == Z_STREAM_END || r == Z_BUF_ERROR || r == Z_STREAM_ERROR);
  if (verif_z_state == 2) { VERIF_ASSUME(r == Z_STREAM_END || r == Z_BUF_ERROR); return r; }
  /* zlib.h: deflate returns with avail_out != 0 only once it has consumed all input (and, with Z_FINISH, flushed everything) */
  verif_z_io(s, 1);
  VERIF_ASSUME(r != Z_STREAM_END || (flush == Z_FINISH && s->avail_in == 0));
  VERIF_ASSUME(!(flush == Z_FINISH && s->avail_out != 0) || r == Z_STREAM_END);
  VERIF_ASSUME(r != Z_BUF_ERROR || (s->avail_in == in0 && s->avail_out == out0));
  if (r == Z_STREAM_END) verif_z_state = 2;
  return r;
}
static int verif_inflateEnd(z_stream* s) { VERIF_ASSERT(verif_z_state != 0, "zlib: inflateEnd on an initialised stream"); verif_z_state = 0; verif_z_leaks--; return Z_OK; }
static int verif_deflateEnd(z_stream* s)
{
  VERIF_ASSERT(verif_z_state != 0, "zlib: deflateEnd on an initialised stream");
  if (verif_z_src != 0) {
    VERIF_ASSERT(verif_z_pos == verif_z_src_len, "zlib framing: every input byte was consumed before deflateEnd");
    VERIF_ASSERT(verif_z_state == 2, "zlib framing: the stream was finished (Z_FINISH ran to Z_STREAM_END) before deflateEnd");
  }
  verif_z_state = 0; verif_z_leaks--; return Z_OK;
}
#endif
#endif
