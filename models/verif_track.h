/* Contract vocabulary for the track conversion layer (C01 / C06): strings, optionals, cue / loop / marker records.
 * Macros only (usable in loop invariants: no calls).  TRUSTED as part of the specification. */
#ifndef VERIF_TRACK_H
#define VERIF_TRACK_H
/* strings in these contracts: PROVENANCE equality.  Every input string carries an arbitrary 64-bit token in its ghost field
 * `tag`; the string model keeps the token on copy (which also copies every byte) and nothing else produces it (assign from
 * raw bytes clears it, literals and concatenations derive their own).  Since the proof holds for every choice of tokens, in
 * particular pairwise distinct ones, "same size and same token" means "a copy of exactly that input string". */
#ifndef VERIF_MAXSTR
#define VERIF_MAXSTR 65536
/* waveform entry e is what the stored overview point p reads as (the format has no opacity: it reads as 255) */
#define WAVE_OF_V2(e, p) ((e).low.value == (p).low_value && (e).mid.value == (p).mid_value && (e).high.value == (p).high_value \
                          && (e).low.opacity == 255 && (e).mid.opacity == 255 && (e).high.opacity == 255)
#define V2_WAVE_OF(p, e) ((p).low_value == (e).low.value && (p).mid_value == (e).mid.value && (p).high_value == (e).high.value)
/* beat grid marker blob m holds marker k (the beats-until-next-marker field is derived data, not stated here) */
#define V2_MARKER_OF(m, k) ((m).beat_number == (int64_t)(k).index && DSAME((m).sample_offset, (k).sample_offset))
#endif
#ifdef VERIF_LEMMA
/* lemma harnesses (contracts only, no real code): strings are size + token, no storage */
#define ANYSTR(s) { size_t __n = nondet_size_t(); __CPROVER_assume(__n <= VERIF_MAXSTR); (s).size = __n; (s).data = 0; (s).tag = nondet_size_t(); }
#define STR_VALID(s) ((s).size <= VERIF_MAXSTR)
#else
#define ANYSTR(s) { size_t __n = nondet_size_t(); __CPROVER_assume(__n <= VERIF_MAXSTR); (s).size = __n; (s).data = (int8_t*)malloc(__n ? __n : 1); __CPROVER_assume((s).data != 0); (s).tag = nondet_size_t(); }
#define STR_VALID(s) ((s).data != 0 && (s).size <= VERIF_MAXSTR && __CPROVER_r_ok((s).data, (s).size ? (s).size : 1))
#endif
#define ANYOPTSTR(o) { (o).has = nondet_bool(); ANYSTR((o).val) }
#define STR_SAME(a, b) ((a).size == (b).size && (a).tag == (b).tag)
/* (optional engagement is compared by truth value: an arbitrary _Bool input may hold any non-zero byte) */
#define OPTSTR_SAME(a, b) (!(a).has == !(b).has && (!(a).has || STR_SAME((a).val, (b).val)))
#define OPT_SAME(a, b) (!(a).has == !(b).has && (!(a).has || (a).val == (b).val))
#define OPT_IS(a, h, v) (!(a).has == !(h) && (!(a).has || (a).val == (v)))
/* ---- track conversion layer (C01 / C06): what the schema-2.x row stores for a snapshot value and back --------------
 * colour and double equality is bit equality; an absent cue / loop is the sentinel record of the format */
#define COLOR_SAME(X_, Y_) ((X_).r == (Y_).r && (X_).g == (Y_).g && (X_).b == (Y_).b && (X_).a == (Y_).a)
#define COLOR_ZERO(X_) ((X_).r == 0 && (X_).g == 0 && (X_).b == 0 && (X_).a == 0)
/* bit equality of two doubles (cbmc intrinsic, proved equal to comparing the 64-bit patterns; call-free: usable in loop invariants) */
#define DSAME(a, b) __CPROVER_equal(a, b)
#define OPTD_SAME(a, b) (!(a).has == !(b).has && (!(a).has || DSAME((a).val, (b).val)))
/* quick cue blob q holds optional hot cue c */
#define V2_CUE_OF(q, c) ((c).has ? (STR_SAME((q).label, (c).val.label) && DSAME((q).sample_offset, (c).val.sample_offset) && COLOR_SAME((q).color, (c).val.color)) \
                                : V2_CUE_EMPTY(q))
#define V2_CUE_EMPTY(q) ((q).label.size == 0 && (q).sample_offset == -1.0 && COLOR_ZERO((q).color))
/* optional hot cue c is what quick cue blob q reads as */
#define CUE_OF_V2(c, q) ((q).sample_offset == -1.0 ? !(c).has : ((c).has && STR_SAME((c).val.label, (q).label) && DSAME((c).val.sample_offset, (q).sample_offset) && COLOR_SAME((c).val.color, (q).color)))
#define V2_LOOP_EMPTY(q) ((q).label.size == 0 && (q).start_sample_offset == -1.0 && (q).end_sample_offset == -1.0 && !(q).is_start_set && !(q).is_end_set && COLOR_ZERO((q).color))
#define V2_LOOP_OF(q, c) ((c).has ? (STR_SAME((q).label, (c).val.label) && DSAME((q).start_sample_offset, (c).val.start_sample_offset) && DSAME((q).end_sample_offset, (c).val.end_sample_offset) \
                                   && (q).is_start_set == 1 && (q).is_end_set == 1 && COLOR_SAME((q).color, (c).val.color)) : V2_LOOP_EMPTY(q))
#define LOOP_OF_V2(c, q) (((q).is_start_set || (q).is_end_set) ? ((c).has && STR_SAME((c).val.label, (q).label) && DSAME((c).val.start_sample_offset, (q).start_sample_offset) \
                                   && DSAME((c).val.end_sample_offset, (q).end_sample_offset) && COLOR_SAME((c).val.color, (q).color)) : !(c).has)
/* waveform entry e is what the stored overview point p reads as (the format has no opacity: it reads as 255) */
#define WAVE_OF_V2(e, p) ((e).low.value == (p).low_value && (e).mid.value == (p).mid_value && (e).high.value == (p).high_value \
                          && (e).low.opacity == 255 && (e).mid.opacity == 255 && (e).high.opacity == 255)
#define V2_WAVE_OF(p, e) ((p).low_value == (e).low.value && (p).mid_value == (e).mid.value && (p).high_value == (e).high.value)
/* beat grid marker blob m holds marker k (the beats-until-next-marker field is derived data, not stated here) */
#define V2_MARKER_OF(m, k) ((m).beat_number == (int64_t)(k).index && DSAME((m).sample_offset, (k).sample_offset))
/* a duration (optional milliseconds) truncated to whole seconds, absent = 0: the value the row stores.  Always written in this
 * one shape so that the solver sees one division term (SAT needs minutes to relate two differently shaped division circuits) */
#define WHOLE_SECONDS_OF(o) (((o).has ? (o).val : 0) / 1000)
/* ---- whole values: an arbitrary well-formed snapshot / schema-2.x track row (harness side) and the same as the fresh result
 * of a contract stub.  Vectors have arbitrary sizes and arbitrary elements; the strings inside vector elements are made valid
 * for the ghost element verif_g2 only (facts are stated for that element only). */
/* (the capacity is angelic: any value from the size up to size + 64, so that code which GROWS the vector - resize, push_back -
 * is not cut off by the abstract model's "storage never moves" assumption n <= cap) */
#define TRK_ANYVEC(v, maxn) { (v).size = nondet_size_t(); __CPROVER_assume((v).size <= (maxn)); (v).cap = nondet_size_t(); \
  __CPROVER_assume((v).cap >= (v).size && (v).cap >= 1 && (v).cap <= (v).size + 64); \
  (v).data = malloc((v).cap * sizeof(*(v).data)); __CPROVER_assume((v).data != 0); }
/* the value a table accessor hands out (or stores) is a COPY of the column: fresh storage of the same size that agrees with the
 * source at the two ghost positions (the only elements contracts speak about).  Without this the fetched blob would alias the
 * ghost column and an in-place change of an element would also change the "old" value it is compared with. */
#define VEC_GHOST_COPY(dst, src) { size_t __c = nondet_size_t(); __CPROVER_assume(__c >= (src).size && __c >= 1 && __c <= (src).size + 64); \
  __typeof__((src).data) __d = malloc(__c * sizeof(*(src).data)); __CPROVER_assume(__d != 0); \
  if (verif_g < (src).size) __d[verif_g] = (src).data[verif_g]; if (verif_g2 < (src).size) __d[verif_g2] = (src).data[verif_g2]; \
  (dst).size = (src).size; (dst).cap = __c; (dst).data = __d; }
#define SNAPSHOT_ANY(s) { ANYOPTSTR((s)->album) ANYOPTSTR((s)->artist) ANYOPTSTR((s)->comment) ANYOPTSTR((s)->composer) ANYOPTSTR((s)->genre) \
  ANYOPTSTR((s)->publisher) ANYOPTSTR((s)->relative_path) ANYOPTSTR((s)->title) \
  TRK_ANYVEC((s)->beatgrid, 1 << 24) TRK_ANYVEC((s)->hot_cues, 1 << 20) TRK_ANYVEC((s)->loops, 1 << 20) TRK_ANYVEC((s)->waveform, 1 << 24) \
  if (verif_g2 < (s)->hot_cues.size) { ANYSTR((s)->hot_cues.data[verif_g2].val.label) } \
  if (verif_g2 < (s)->loops.size) { ANYSTR((s)->loops.data[verif_g2].val.label) } }
#define SNAPSHOT_VALID(s) (STR_VALID((s)->album.val) && STR_VALID((s)->artist.val) && STR_VALID((s)->comment.val) && STR_VALID((s)->composer.val) \
  && STR_VALID((s)->genre.val) && STR_VALID((s)->publisher.val) && STR_VALID((s)->relative_path.val) && STR_VALID((s)->title.val) \
  && VEC_VALID((s)->beatgrid) && VEC_VALID((s)->hot_cues) && VEC_VALID((s)->loops) && VEC_VALID((s)->waveform) \
  && (s)->beatgrid.size <= (1 << 24) && (s)->hot_cues.size <= (1 << 20) && (s)->loops.size <= (1 << 20) && (s)->waveform.size <= (1 << 24) \
  && (verif_g2 >= (s)->hot_cues.size || STR_VALID((s)->hot_cues.data[verif_g2].val.label)) \
  && (verif_g2 >= (s)->loops.size || STR_VALID((s)->loops.data[verif_g2].val.label)))
#define ROW_ANY(r) { ANYSTR((r).path) ANYSTR((r).filename) ANYSTR((r).file_type) ANYSTR((r).origin_database_uuid) \
  ANYOPTSTR((r).title) ANYOPTSTR((r).artist) ANYOPTSTR((r).album) ANYOPTSTR((r).genre) ANYOPTSTR((r).comment) ANYOPTSTR((r).label) \
  ANYOPTSTR((r).composer) ANYOPTSTR((r).remixer) ANYOPTSTR((r).album_art) ANYOPTSTR((r).streaming_source) ANYOPTSTR((r).uri) \
  TRK_ANYVEC((r).track_data.extra_data, 1 << 20) TRK_ANYVEC((r).overview_waveform_data.waveform_points, 1 << 24) TRK_ANYVEC((r).overview_waveform_data.extra_data, 1 << 20) \
  TRK_ANYVEC((r).beat_data.default_beat_grid, 1 << 24) TRK_ANYVEC((r).beat_data.adjusted_beat_grid, 1 << 24) TRK_ANYVEC((r).beat_data.extra_data, 1 << 20) \
  TRK_ANYVEC((r).quick_cues.quick_cues, 1 << 20) TRK_ANYVEC((r).quick_cues.extra_data, 1 << 20) TRK_ANYVEC((r).loops.loops, 1 << 20) TRK_ANYVEC((r).loops.extra_data, 1 << 20) \
  if (verif_g2 < (r).quick_cues.quick_cues.size) { ANYSTR((r).quick_cues.quick_cues.data[verif_g2].label) } \
  if (verif_g2 < (r).loops.loops.size) { ANYSTR((r).loops.loops.data[verif_g2].label) } }
#define ROW_FRESH(r) ROW_ANY(r)
#define ROW_VALID(r) (STR_VALID((r).path) && STR_VALID((r).title.val) && STR_VALID((r).artist.val) && STR_VALID((r).album.val) && STR_VALID((r).genre.val) \
  && STR_VALID((r).comment.val) && STR_VALID((r).label.val) && STR_VALID((r).composer.val) \
  && VEC_VALID((r).overview_waveform_data.waveform_points) && VEC_VALID((r).beat_data.adjusted_beat_grid) && VEC_VALID((r).quick_cues.quick_cues) && VEC_VALID((r).loops.loops) \
  && (r).overview_waveform_data.waveform_points.size <= (1 << 24) && (r).beat_data.adjusted_beat_grid.size <= (1 << 24) && (r).quick_cues.quick_cues.size <= (1 << 20) && (r).loops.loops.size <= (1 << 20) \
  && (verif_g2 >= (r).quick_cues.quick_cues.size || STR_VALID((r).quick_cues.quick_cues.data[verif_g2].label)) \
  && (verif_g2 >= (r).loops.loops.size || STR_VALID((r).loops.loops.data[verif_g2].label)))
#define SNAPSHOT_FRESH(s, row) SNAPSHOT_ANY(&(s))
#endif
