/* Specification vocabulary used by contracts/*.spec (harness side only; never compiled into translated code).
 * The byte-order macros ARE the bit-level format description: BE = most significant byte first,
 * LE = least significant byte first, two's complement, IEEE-754 binary64 bit pattern for doubles. */
#ifndef VERIF_SPEC_H
#define VERIF_SPEC_H
#define U8(p, i) ((uint64_t)(uint8_t)(p)[i])
#define LD_BE32(p) ((uint32_t)((U8(p,0) << 24) | (U8(p,1) << 16) | (U8(p,2) << 8) | U8(p,3)))
#define LD_LE32(p) ((uint32_t)((U8(p,3) << 24) | (U8(p,2) << 16) | (U8(p,1) << 8) | U8(p,0)))
#define LD_BE64(p) ((uint64_t)((U8(p,0) << 56) | (U8(p,1) << 48) | (U8(p,2) << 40) | (U8(p,3) << 32) | (U8(p,4) << 24) | (U8(p,5) << 16) | (U8(p,6) << 8) | U8(p,7)))
#define LD_LE64(p) ((uint64_t)((U8(p,7) << 56) | (U8(p,6) << 48) | (U8(p,5) << 40) | (U8(p,4) << 32) | (U8(p,3) << 24) | (U8(p,2) << 16) | (U8(p,1) << 8) | U8(p,0)))
static uint64_t verif_bits(double d) { uint64_t u; __CPROVER_assert(sizeof(u) == sizeof(d), "spec: double is 64 bit"); memcpy(&u, &d, 8); return u; }
#define BITS(d) verif_bits(d)

/* harness input builders ------------------------------------------------------------------------------- */
/* p points at least N bytes before the end of a heap buffer of arbitrary size; remembers base/size for frames */
#define RBUF(p, N) \
  size_t p##_n = nondet_size_t(); __CPROVER_assume(p##_n >= (N) && p##_n <= VERIF_MAXBUF); \
  uint8_t* p##_base = (uint8_t*)malloc(p##_n); __CPROVER_assume(p##_base != 0); \
  size_t p##_off = nondet_size_t(); __CPROVER_assume(p##_off <= p##_n - (N)); \
  p = p##_base + p##_off;
/* [p, e) is an arbitrary sub-range of a heap buffer of arbitrary size */
#define RRANGE(p, e) \
  size_t p##_n = nondet_size_t(); __CPROVER_assume(p##_n <= VERIF_MAXBUF); \
  uint8_t* p##_base = (uint8_t*)malloc(p##_n ? p##_n : 1); __CPROVER_assume(p##_base != 0); \
  size_t p##_off = nondet_size_t(); size_t p##_eoff = nondet_size_t(); __CPROVER_assume(p##_off <= p##_eoff && p##_eoff <= p##_n); \
  p = p##_base + p##_off; e = p##_base + p##_eoff;
/* a byte vector of arbitrary size */
#define BYTEVEC(v) \
  (v).size = nondet_size_t(); __CPROVER_assume((v).size <= VERIF_MAXBUF); (v).cap = (v).size; \
  (v).data = (uint8_t*)malloc((v).size ? (v).size : 1); __CPROVER_assume((v).data != 0);
/* validity of a vector in the abstract container model: storage object of cap elements, size <= cap */
#define VEC_VALID(v) ((v).size <= (v).cap && (v).data != 0 && __CPROVER_rw_ok((v).data, (v).cap * sizeof(*(v).data)))
#define RANGE_OK(p, e) (__CPROVER_same_object(p, e) && (p) <= (e) && __CPROVER_r_ok(p, (size_t)((e) - (p))))
/* stub side: a fresh vector of n elements with arbitrary contents */
#define FRESH_VEC(v, n) \
  (v).size = (n); (v).cap = (v).size ? (v).size : 1; (v).data = malloc((v).cap * sizeof(*(v).data)); __CPROVER_assume((v).data != 0);
#define FRESH_VEC_ANY(v, maxn) \
  { size_t __n = nondet_size_t(); __CPROVER_assume(__n <= (maxn)); FRESH_VEC(v, __n) }
/* frame: one arbitrary byte of the buffer under p, remembered before the call */
#define FRAME_PRE(p) size_t p##_fj = nondet_size_t(); __CPROVER_assume(p##_fj < p##_n); uint8_t p##_fold = p##_base[p##_fj];
#define FRAME_OK(p, lo, hi) ((p##_fj >= p##_off + (lo) && p##_fj < p##_off + (hi)) || p##_base[p##_fj] == p##_fold)
#endif
