/* Specification vocabulary used by contracts/*.spec (harness side only; never compiled into translated code).
 * The byte-order macros ARE the bit-level format description: BE = most significant byte first,
 * LE = least significant byte first, two's complement, IEEE-754 binary64 bit pattern for doubles. */
#ifndef VERIF_SPEC_H
#define VERIF_SPEC_H
/* replay variant: inputs live in named static arrays, assigned byte by byte, so that a cbmc trace spells them out */
#ifdef VERIF_REPLAY
#ifndef VERIF_REPLAY_N
#define VERIF_REPLAY_N 96
#endif
uint8_t verif_in[VERIF_REPLAY_N]; size_t verif_in_len;
uint8_t verif_payload[VERIF_REPLAY_N]; size_t verif_payload_len;
unsigned char nondet_uchar(void);
#define VERIF_REPLAY_FILL(arr, len) { __CPROVER_havoc_object(arr); len = nondet_size_t(); __CPROVER_assume(len <= VERIF_REPLAY_N); }
#endif
/* harness input builders ------------------------------------------------------------------------------- */
/* p points at least N bytes before the end of a heap buffer of arbitrary size; remembers base/size for frames */
#define RBUF(p, N) \
  size_t p##_n = nondet_size_t(); __CPROVER_assume(p##_n >= (N) && p##_n <= VERIF_MAXBUF); \
  uint8_t* p##_base = (uint8_t*)malloc(p##_n); __CPROVER_assume(p##_base != 0); \
  size_t p##_off = nondet_size_t(); __CPROVER_assume(p##_off <= p##_n - (N)); \
  p = p##_base + p##_off;
/* [p, e) is an arbitrary sub-range of a heap buffer of arbitrary size */
#ifdef VERIF_REPLAY
/* replay: the range is a whole, exactly sized heap buffer whose bytes are those of the named array verif_in */
#define RRANGE(p, e) \
  VERIF_REPLAY_FILL(verif_in, verif_in_len) size_t p##_n = verif_in_len; size_t p##_off = 0; size_t p##_eoff = p##_n; \
  uint8_t* p##_base = (uint8_t*)malloc(p##_n ? p##_n : 1); __CPROVER_assume(p##_base != 0); \
  __CPROVER_array_replace(p##_base, verif_in); \
  p = p##_base; e = p##_base + p##_n;
#else
#define RRANGE(p, e) \
  size_t p##_n = nondet_size_t(); __CPROVER_assume(p##_n <= VERIF_MAXBUF); \
  uint8_t* p##_base = (uint8_t*)malloc(p##_n ? p##_n : 1); __CPROVER_assume(p##_base != 0); \
  size_t p##_off = nondet_size_t(); size_t p##_eoff = nondet_size_t(); __CPROVER_assume(p##_off <= p##_eoff && p##_eoff <= p##_n); \
  p = p##_base + p##_off; e = p##_base + p##_eoff;
#endif
/* a byte vector of arbitrary size */
#ifdef VERIF_REPLAY
#define BYTEVEC(v) VERIF_REPLAY_FILL(verif_in, verif_in_len) (v).size = verif_in_len; (v).cap = VERIF_REPLAY_N; (v).data = verif_in;
#else
#define BYTEVEC(v) \
  (v).size = nondet_size_t(); __CPROVER_assume((v).size <= VERIF_MAXBUF); (v).cap = (v).size; \
  (v).data = (uint8_t*)malloc((v).size ? (v).size : 1); __CPROVER_assume((v).data != 0);
#endif
/* validity of a vector in the abstract container model: storage object of cap elements, size <= cap */
#ifdef VERIF_LEMMA
#define VEC_VALID(v) ((v).size <= (v).cap && (v).data != 0)
#else
#define VEC_VALID(v) ((v).size <= (v).cap && (v).data != 0 && __CPROVER_rw_ok((v).data, (v).cap * sizeof(*(v).data)))
#endif
#define RANGE_OK(p, e) (__CPROVER_same_object(p, e) && (p) <= (e) && __CPROVER_r_ok(p, (size_t)((e) - (p))))
/* stub side: a fresh vector of n elements with arbitrary contents */
#define FRESH_VEC(v, n) \
  (v).size = (n); (v).cap = (v).size ? (v).size : 1; (v).data = malloc((v).cap * sizeof(*(v).data)); __CPROVER_assume((v).data != 0);
#ifdef VERIF_REPLAY
#define FRESH_VEC_ANY(v, maxn) \
  { if (sizeof(*(v).data) == 1 && verif_payload_len == (size_t)-1) { VERIF_REPLAY_FILL(verif_payload, verif_payload_len) (v).size = verif_payload_len; (v).cap = VERIF_REPLAY_N; (v).data = (void*)verif_payload; } \
    else { size_t __n = nondet_size_t(); __CPROVER_assume(__n <= (maxn) && __n <= 8); FRESH_VEC(v, __n) } }
#else
#define FRESH_VEC_ANY(v, maxn) \
  { size_t __n = nondet_size_t(); __CPROVER_assume(__n <= (maxn)); FRESH_VEC(v, __n) }
#endif
/* frame: one arbitrary byte of the buffer under p, remembered before the call */
#define FRAME_PRE(p) size_t p##_fj = nondet_size_t(); __CPROVER_assume(p##_fj < p##_n); uint8_t p##_fold = p##_base[p##_fj];
#define FRAME_OK(p, lo, hi) ((p##_fj >= p##_off + (lo) && p##_fj < p##_off + (hi)) || p##_base[p##_fj] == p##_fold)
#endif
/* a vector of n <= maxn elements of arbitrary contents */
#define ANYVEC(v, maxn) \
  (v).size = nondet_size_t(); __CPROVER_assume((v).size <= (maxn)); (v).cap = (v).size ? (v).size : 1; \
  (v).data = malloc((v).cap * sizeof(*(v).data)); __CPROVER_assume((v).data != 0);
