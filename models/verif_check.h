#ifndef VERIF_CHECK_H
#define VERIF_CHECK_H
#endif
