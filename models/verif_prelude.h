/* Runtime/model prelude shared by every generated C file.
 * Three build flavours:
 *   native            : gcc, real malloc/memcpy - used by the fidelity run against the real C++
 *   VERIF_CBMC        : goto-cc; precise models (loops unwound) - bounded stand-in checks
 *   VERIF_CBMC + VERIF_ABSTRACT : goto-cc; container models are contract stubs (no loops, contents havocked)
 *                       - used by the unbounded contract proofs
 * Everything in this directory is TRUSTED: it states the libstdc++ / libc / zlib contracts the proofs assume.
 */
#ifndef VERIF_PRELUDE_H
#define VERIF_PRELUDE_H
#include <stdint.h>
#include <stddef.h>
#include <stdlib.h>
#include <string.h>

extern int verif_exc;

#ifdef VERIF_CBMC
#define VERIF_ASSERT(c, msg) __CPROVER_assert((c), msg)
#define VERIF_ASSUME(c) __CPROVER_assume(c)
#define VERIF_REACH(msg) __CPROVER_assert(0, msg)
#define VERIF_GHOST(...) __VA_ARGS__
size_t nondet_size_t(void);
int nondet_int(void);
_Bool nondet_bool(void);
#define VERIF_WANT_FORMAT 1
/* ghost index: one arbitrary element position, fixed by the harness before the call ("for all g" by generalisation) */
extern size_t verif_g;
#ifdef VERIF_NO_LOOP_CONTRACTS
#define VERIF_LC(...)
#else
#define VERIF_LC(...) __VA_ARGS__
#endif
extern uint64_t verif_written;   /* ghost: set of table columns written through the column-store stubs (C06) */
extern size_t verif_g2;   /* second arbitrary position: ELEMENT index of vectors whose elements own strings */
/* ghost: the total length of the labels of the vector being encoded (the same Sigma in the sizing pass and in the encoding pass) */
extern size_t verif_sum;
/* ghost: the one element position of an externally supplied vector that the harness makes fully valid */
extern size_t verif_elem;
/* ghost call log: the k-th call of a contract stub made by the function under check */
typedef struct { int fn; const void* p[4]; uint64_t v[4]; const void* ret; const void* retv; uint64_t retval; } verif_call_t;
extern const void* verif_mark[4];   /* addresses of locals snapshotted by ghost code */
extern verif_call_t verif_calls[24];
extern size_t verif_ncalls;
#ifdef VERIF_NO_CALL_LOG
#define VERIF_LOG_CALL(F, p0, p1, p2, p3, v0, v1, v2, v3) { }
#else
#define VERIF_LOG_CALL(F, p0, p1, p2, p3, v0, v1, v2, v3) { if (verif_ncalls < 24) { verif_calls[verif_ncalls].fn = (F); \
  verif_calls[verif_ncalls].p[0] = (p0); verif_calls[verif_ncalls].p[1] = (p1); verif_calls[verif_ncalls].p[2] = (p2); verif_calls[verif_ncalls].p[3] = (p3); \
  verif_calls[verif_ncalls].v[0] = (v0); verif_calls[verif_ncalls].v[1] = (v1); verif_calls[verif_ncalls].v[2] = (v2); verif_calls[verif_ncalls].v[3] = (v3); } verif_ncalls++; }
#endif
#ifdef VERIF_NO_CALL_LOG
#define VERIF_LOG_RET(r) { }
#define VERIF_LOG_RETV(r) { }
#define VERIF_LOG_RETVAL(r) { }
#else
#define VERIF_LOG_RET(r) { if (verif_ncalls >= 1 && verif_ncalls <= 24) verif_calls[verif_ncalls - 1].ret = (r); }
#define VERIF_LOG_RETV(r) { if (verif_ncalls >= 1 && verif_ncalls <= 24) verif_calls[verif_ncalls - 1].retv = (r); }
#define VERIF_LOG_RETVAL(r) { if (verif_ncalls >= 1 && verif_ncalls <= 24) verif_calls[verif_ncalls - 1].retval = (r); }
#endif
#define RETV(k) (verif_calls[k].retv)
#define RETVAL(k) (verif_calls[k].retval)
/* a summarised loop appears in the call log as a pseudo call: fn = -(loop ordinal + 1), p[0] = the container, p[1] = position before, ret = position after */
#define VERIF_LOG_LOOP(k, cont, before, after) { VERIF_LOG_CALL(-((k) + 1), (const void*)(cont), (const void*)(before), 0, 0, 0, 0, 0, 0) VERIF_LOG_RET((const void*)(after)) }
#define LOOPED(j, k, cont, pos) (verif_ncalls > (j) && verif_calls[j].fn == -((k) + 1) && ARGP(j, 0) == (const void*)(cont) && ARGP(j, 1) == (const void*)(pos))
/* a bulk copy (memcpy / std::copy) of n bytes from src to pos is an accepted way of writing n one-byte records */
#define COPIED(j, pos, src, n) (verif_ncalls > (j) && verif_calls[j].fn == -100 && ARGP(j, 0) == (const void*)(pos) && ARGP(j, 1) == (const void*)(src) && ARGV(j, 2) == (uint64_t)(n))
/* layout assertions over the call log: the k-th codec call wrote/read value bits at position pos */
#define WROTE(k, F, bits, pos) (CALLED(k, F) && ARGV(k, 0) == (uint64_t)(bits) && ARGP(k, 1) == (const void*)(pos))
#define READ(k, F, pos) (CALLED(k, F) && ARGP(k, 0) == (const void*)(pos))
#define CALLED(k, F) (verif_ncalls > (k) && verif_calls[k].fn == FN_##F)
#define ARGP(k, i) (verif_calls[k].p[i])
#define ARGV(k, i) (verif_calls[k].v[i])
#define RETP(k) (verif_calls[k].ret)

#else
#include <stdio.h>
static void verif_fail(const char* msg) { fprintf(stderr, "VERIF_ASSERT failed: %s\n", msg); abort(); }
#define VERIF_ASSERT(c, msg) ((c) ? (void)0 : verif_fail(msg))
#define VERIF_ASSUME(c) ((void)0)
#define VERIF_REACH(msg) ((void)0)
#define VERIF_GHOST(...)
#endif
#ifndef VERIF_MAXBUF
#define VERIF_MAXBUF 0x7fffffffUL   /* SQLite's hard blob limit (2^31 - 1): no database can hand the decoders more */
#endif
/* pointer facts for loop invariants: written over object/offset so that they carry no well-definedness side
 * conditions of their own (a relational operator on a havocked pointer fails cbmc's pointer check before the
 * invariant is even assumed) */
#define PTR_LE(a, b) (__CPROVER_same_object(a, b) && __CPROVER_POINTER_OFFSET(a) <= __CPROVER_POINTER_OFFSET(b))
#define PTR_DIFF(e, p) ((int64_t)__CPROVER_POINTER_OFFSET(e) - (int64_t)__CPROVER_POINTER_OFFSET(p))
#define VERIF_CHECK_PTR(c, msg) VERIF_ASSERT((c), "check: " msg)
#define VERIF_MODEL_LOOP

/* largest element count libstdc++'s vector<T>::max_size() admits (PTRDIFF_MAX / sizeof(T)) */
#define VERIF_VEC_MAXN(T) ((size_t)(PTRDIFF_MAX / sizeof(T)))
/* abstract mode: the angelic capacity of a vector is bounded so that every object stays within cbmc's
 * object-size limit; executions needing more are treated as allocation failure (bad_alloc: not modelled) */
#ifndef VERIF_CAP_BYTES
#define VERIF_CAP_BYTES ((size_t)1 << 36)
#endif

#if defined(VERIF_CBMC) && defined(VERIF_ABSTRACT)
#define VERIF_VEC_IMPL(TAG, T) \
  static vec_##TAG vec_##TAG##_default(void) { vec_##TAG v; size_t c = nondet_size_t(); \
    VERIF_ASSUME(c >= 1 && c <= VERIF_CAP_BYTES / sizeof(T)); v.data = (T*)malloc(c * sizeof(T)); VERIF_ASSUME(v.data != 0); v.size = 0; v.cap = c; return v; } \
  static vec_##TAG vec_##TAG##_ctor_n(size_t n) { vec_##TAG v = vec_##TAG##_default(); \
    if (n > VERIF_VEC_MAXN(T)) { verif_exc = EXC_std_length_error; return v; } \
    VERIF_ASSUME(n <= v.cap); v.size = n; return v; } \
  static vec_##TAG vec_##TAG##_ctor_n_val(size_t n, T x) { vec_##TAG v = vec_##TAG##_ctor_n(n); \
    /* every element is a copy of x: stated for the arbitrary ghost position verif_g */ \
    if (verif_exc == 0 && verif_g < n) v.data[verif_g] = x; if (verif_exc == 0 && verif_g2 < n) v.data[verif_g2] = x; return v; } \
  static void vec_##TAG##_reserve(vec_##TAG* v, size_t n) { if (n > VERIF_VEC_MAXN(T)) { verif_exc = EXC_std_length_error; } } \
  static void vec_##TAG##_resize(vec_##TAG* v, size_t n) { if (n > VERIF_VEC_MAXN(T)) { verif_exc = EXC_std_length_error; return; } \
    VERIF_ASSUME(n <= v->cap); v->size = n; } \
  /* resize(n) of a vector of std::optional: appended elements are value-initialised = disengaged (all zero), stated for the ghost positions */ \
  static void vec_##TAG##_resize_zero(vec_##TAG* v, size_t n) { size_t old = v->size; vec_##TAG##_resize(v, n); \
    if (verif_exc == 0 && verif_g >= old && verif_g < n) memset(&v->data[verif_g], 0, sizeof(T)); \
    if (verif_exc == 0 && verif_g2 >= old && verif_g2 < n) memset(&v->data[verif_g2], 0, sizeof(T)); } \
  static void vec_##TAG##_resize_val(vec_##TAG* v, size_t n, T x) { size_t old = v->size; vec_##TAG##_resize(v, n); \
    /* every appended element is a copy of x: stated for the ghost positions */ \
    if (verif_exc == 0 && verif_g >= old && verif_g < n) v->data[verif_g] = x; if (verif_exc == 0 && verif_g2 >= old && verif_g2 < n) v->data[verif_g2] = x; } \
  static void vec_##TAG##_push_back(vec_##TAG* v, T x) { VERIF_ASSUME(v->size < v->cap); v->data[v->size] = x; v->size++; } \
  static void vec_##TAG##_insert_end(vec_##TAG* v, const T* first, const T* last) { \
    VERIF_ASSERT(__CPROVER_same_object(first, last) && first <= last, "model: vector::insert range is valid"); \
    size_t n = (size_t)(last - first); VERIF_ASSERT(n == 0 || __CPROVER_r_ok(first, n * sizeof(T)), "model: vector::insert source readable"); \
    VERIF_ASSUME(n <= v->cap - v->size); v->size += n; } \
  static void vec_##TAG##_erase_range(vec_##TAG* v, T* a, T* b) { \
    VERIF_ASSERT(__CPROVER_same_object(a, v->data) && __CPROVER_same_object(b, v->data) && v->data <= a && a <= b && b <= v->data + v->size, "model: vector::erase range within [begin,end]"); \
    v->size -= (size_t)(b - a); } \
  static T* vec_##TAG##_index(const vec_##TAG* v, size_t i) { VERIF_ASSERT(i < v->size, "check: vector index in range"); return &v->data[i]; } \
  static T* vec_##TAG##_back(const vec_##TAG* v) { VERIF_ASSERT(v->size > 0, "check: back() of non-empty vector"); return &v->data[v->size - 1]; } \
  static T* vec_##TAG##_front(const vec_##TAG* v) { VERIF_ASSERT(v->size > 0, "check: front() of non-empty vector"); return &v->data[0]; } \
  static T* vec_##TAG##_at(const vec_##TAG* v, size_t i) { if (i >= v->size) { verif_exc = EXC_std_out_of_range; return v->data; } return &v->data[i]; } \
  static vec_##TAG vec_##TAG##_copy_shallow(const vec_##TAG* s) { vec_##TAG v = vec_##TAG##_default(); VERIF_ASSUME(s->size <= v.cap); v.size = s->size; \
    /* a copy copies every element: stated for the arbitrary ghost position verif_g */ \
    if (verif_g < s->size) v.data[verif_g] = s->data[verif_g]; if (verif_g2 < s->size) v.data[verif_g2] = s->data[verif_g2]; return v; }
#else
static void* verif_alloc(size_t n, size_t sz)
{
  void* p = calloc(n ? n : 1, sz);
#ifdef VERIF_CBMC
  VERIF_ASSUME(p != 0);
#else
  if (!p) abort();
#endif
  return p;
}
#define VERIF_VEC_IMPL(TAG, T) \
  static vec_##TAG vec_##TAG##_default(void) { vec_##TAG v = {0, 0, 0}; return v; } \
  static void vec_##TAG##_grow(vec_##TAG* v, size_t need) { if (need <= v->cap) return; size_t c = v->cap ? v->cap * 2 : 4; if (c < need) c = need; \
    T* d = (T*)verif_alloc(c, sizeof(T)); for (size_t i = 0; i < v->size; ++i) VERIF_MODEL_LOOP { d[i] = v->data[i]; } v->data = d; v->cap = c; } \
  static vec_##TAG vec_##TAG##_ctor_n(size_t n) { vec_##TAG v = {0, 0, 0}; \
    if (n > VERIF_VEC_MAXN(T)) { verif_exc = EXC_std_length_error; return v; } \
    VERIF_ASSUME(n <= VERIF_CAP_BYTES / sizeof(T)); v.data = (T*)verif_alloc(n, sizeof(T)); v.size = n; v.cap = n; return v; } \
  static vec_##TAG vec_##TAG##_ctor_n_val(size_t n, T x) { vec_##TAG v = vec_##TAG##_ctor_n(n); \
    if (verif_exc == 0) for (size_t i = 0; i < n; ++i) VERIF_MODEL_LOOP { v.data[i] = x; } return v; } \
  static void vec_##TAG##_reserve(vec_##TAG* v, size_t n) { if (n > VERIF_VEC_MAXN(T)) { verif_exc = EXC_std_length_error; return; } \
    VERIF_ASSUME(n <= VERIF_CAP_BYTES / sizeof(T)); VERIF_NATIVE_RESERVE_GUARD(n, T) vec_##TAG##_grow(v, n); } \
  static void vec_##TAG##_resize(vec_##TAG* v, size_t n) { if (n > VERIF_VEC_MAXN(T)) { verif_exc = EXC_std_length_error; return; } \
    VERIF_ASSUME(n <= VERIF_CAP_BYTES / sizeof(T)); VERIF_NATIVE_RESERVE_GUARD(n, T) vec_##TAG##_grow(v, n); \
    for (size_t i = v->size; i < n; ++i) VERIF_MODEL_LOOP { memset(&v->data[i], 0, sizeof(T)); } v->size = n; } \
  static void vec_##TAG##_resize_zero(vec_##TAG* v, size_t n) { vec_##TAG##_resize(v, n); /* the precise resize zero-fills */ } \
  static void vec_##TAG##_resize_val(vec_##TAG* v, size_t n, T x) { size_t old = v->size; vec_##TAG##_resize(v, n); \
    if (verif_exc == 0) for (size_t i = old; i < n; ++i) VERIF_MODEL_LOOP { v->data[i] = x; } } \
  static void vec_##TAG##_push_back(vec_##TAG* v, T x) { vec_##TAG##_grow(v, v->size + 1); v->data[v->size] = x; v->size++; } \
  static void vec_##TAG##_insert_end(vec_##TAG* v, const T* first, const T* last) { size_t n = (size_t)(last - first); \
    vec_##TAG##_grow(v, v->size + n); for (size_t i = 0; i < n; ++i) VERIF_MODEL_LOOP { v->data[v->size + i] = first[i]; } v->size += n; } \
  static void vec_##TAG##_erase_range(vec_##TAG* v, T* a, T* b) { \
    VERIF_ASSERT(v->data <= a && a <= b && b <= v->data + v->size, "model: vector::erase range within [begin,end]"); \
    size_t n = (size_t)(b - a); size_t tail = (size_t)((v->data + v->size) - b); for (size_t i = 0; i < tail; ++i) VERIF_MODEL_LOOP { a[i] = b[i]; } v->size -= n; } \
  static T* vec_##TAG##_index(const vec_##TAG* v, size_t i) { VERIF_ASSERT(i < v->size, "check: vector index in range"); return &v->data[i]; } \
  static T* vec_##TAG##_back(const vec_##TAG* v) { VERIF_ASSERT(v->size > 0, "check: back() of non-empty vector"); return &v->data[v->size - 1]; } \
  static T* vec_##TAG##_front(const vec_##TAG* v) { VERIF_ASSERT(v->size > 0, "check: front() of non-empty vector"); return &v->data[0]; } \
  static T* vec_##TAG##_at(const vec_##TAG* v, size_t i) { if (i >= v->size) { verif_exc = EXC_std_out_of_range; return v->data; } return &v->data[i]; } \
  static vec_##TAG vec_##TAG##_copy_shallow(const vec_##TAG* s) { vec_##TAG v = {0, 0, 0}; v.data = (T*)verif_alloc(s->size, sizeof(T)); \
    for (size_t i = 0; i < s->size; ++i) VERIF_MODEL_LOOP { v.data[i] = s->data[i]; } v.size = s->size; v.cap = s->size; return v; }
#ifdef VERIF_CBMC
#define VERIF_NATIVE_RESERVE_GUARD(n, T)
#else
/* natively an absurd-but-legal reserve/resize would exhaust memory: report bad_alloc like libstdc++ does */
#define VERIF_NATIVE_RESERVE_GUARD(n, T) if ((n) > ((size_t)1 << 31) / sizeof(T)) { verif_exc = EXC_std_bad_alloc; return; }
#endif
#endif
#ifdef VERIF_WANT_FORMAT
#include "verif_format.h"
#include "verif_track.h"
#endif
#endif
