/* Arithmetic whose C and C++17 semantics differ, or that is UB for some operands. TRUSTED (states [expr.shift], [conv.fpint]). */
#ifndef VERIF_ARITH_H
#define VERIF_ARITH_H
/* C++17 [expr.shift]/2: E1 << E2 for signed non-negative E1 is defined iff E1 * 2^E2 is representable in the
 * corresponding unsigned type (the result is then converted back); negative E1 is UB. */
static int32_t verif_shl_s32(int32_t a, int b)
{
  VERIF_ASSERT(b >= 0 && b < 32, "check: shift distance in range");
  VERIF_ASSERT(a >= 0 && ((uint64_t)(uint32_t)a << b) <= 0xFFFFFFFFu, "check: signed left shift representable (C++17 [expr.shift])");
  return (int32_t)((uint32_t)a << b);
}
static int64_t verif_shl_s64(int64_t a, int b)
{
  VERIF_ASSERT(b >= 0 && b < 64, "check: shift distance in range");
  VERIF_ASSERT(a >= 0 && (b == 0 || ((uint64_t)a >> (64 - b)) == 0), "check: signed left shift representable (C++17 [expr.shift])");
  return (int64_t)((uint64_t)a << b);
}
static int8_t verif_shl_s8(int8_t a, int b) { return (int8_t)verif_shl_s32(a, b); }
static int16_t verif_shl_s16(int16_t a, int b) { return (int16_t)verif_shl_s32(a, b); }
/* [conv.fpint]: the truncated value must be representable, else UB */
static int64_t verif_f2s64(double x) { VERIF_ASSERT(x > -9223372036854777856.0 && x < 9223372036854775808.0, "check: double to int64 conversion in range"); return (int64_t)x; }
static int32_t verif_f2s32(double x) { VERIF_ASSERT(x > -2147483649.0 && x < 2147483648.0, "check: double to int32 conversion in range"); return (int32_t)x; }
static uint64_t verif_f2u64(double x) { VERIF_ASSERT(x > -1.0 && x < 18446744073709551616.0, "check: double to uint64 conversion in range"); return (uint64_t)x; }
static uint32_t verif_f2u32(double x) { VERIF_ASSERT(x > -1.0 && x < 4294967296.0, "check: double to uint32 conversion in range"); return (uint32_t)x; }
static uint8_t verif_f2u8(double x) { VERIF_ASSERT(x > -1.0 && x < 256.0, "check: double to uint8 conversion in range"); return (uint8_t)x; }
static int16_t verif_f2s16(double x) { VERIF_ASSERT(x > -32769.0 && x < 32768.0, "check: double to int16 conversion in range"); return (int16_t)x; }
#endif
