#ifndef VERIF_MATH_H
#define VERIF_MATH_H
#include <math.h>
#define verif_ceil(x) ceil(x)
#define verif_floor(x) floor(x)
#define verif_round(x) round(x)
#define verif_fabs(x) fabs(x)
#define verif_trunc(x) trunc(x)
#endif
