// C04 (setter level): a track whose loops blob carries trailing bytes written by a foreign writer keeps them across a
// single-field setter call.  Exit 0: kept; 1: dropped.
#include <cstdio>
#include <djinterop/djinterop.hpp>
#include <djinterop/engine/v2/engine_library.hpp>
namespace e = djinterop::engine;
int main()
{
    auto lib = e::v2::engine_library::create_temporary(e::engine_schema::schema_2_21_0);
    auto db = lib.database();
    djinterop::track_snapshot s;
    s.relative_path = "../a/b.mp3";
    auto t = db.create_track(s);
    auto tbl = lib.track();
    auto blob = tbl.get_loops(t.id());
    blob.extra_data = {std::byte{1}, std::byte{2}, std::byte{3}};
    tbl.set_loops(t.id(), blob);
    int rc = 0;
    auto show = [&](const char* what) {
        auto b = tbl.get_loops(t.id());
        std::printf("%s: loops blob has %zu trailing bytes\n", what, b.extra_data.size());
        if (b.extra_data.size() != 3) rc = 1;
    };
    show("after table set");
    t.set_loop_at(2, djinterop::loop{"x", 10, 20, e::standard_pad_colors::pad_1});
    show("after set_loop_at");
    t.set_loops({});
    show("after set_loops");
    return rc;
}
