#!/usr/bin/env python3
"""Sensitivity run (thorough tier): apply scripted mutations to a scratch copy of the sources (under /var/tmp, removed
afterwards) and confirm that each turns a NAMED obligation of the property's check red.  Never touches /repo."""
import os, re, sys, json, shutil, subprocess

VERIF = os.path.dirname(os.path.dirname(os.path.abspath(__file__)))
E = 'src/djinterop/engine/'
# property -> [(name, file, old text, new text, VERIF_ONLY filter, regex expected in the VIOLATION report)]
MUTATIONS = {
    'C06': [
        ('set_key forgets the copy of the key inside the track-data blob', E + 'v2/track_impl.cpp', '    track_data.key = converted.track_data_key;\n', '', 'track_impl::set_key', r'ensures blob_field'),
        ('set_sample_count zeroes the stored key', E + 'v2/track_impl.cpp', '    track_data.samples = converted.track_data_samples;\n', '    track_data.samples = converted.track_data_samples;\n    track_data.key = 0;\n', 'track_impl::set_sample_count', r'ensures rest_of_track_data'),
        ('set_publisher writes the composer column', E + 'v2/track_impl.cpp', 'track_.set_label(id(), publisher);', 'track_.set_composer(id(), publisher);', 'track_impl::set_publisher', r'ensures (only_its_columns|stored)'),
        ('set_hot_cue_at writes the slot after the index', E + 'v2/track_impl.cpp', 'quick_cues.quick_cues[index] = convert::write::hot_cue(cue);', 'quick_cues.quick_cues[(index + 1) % quick_cues.quick_cues.size()] = convert::write::hot_cue(cue);', 'track_impl::set_hot_cue_at', r'ensures (stored|other_slots_kept)'),
        ('set_main_cue clears the cue slots', E + 'v2/track_impl.cpp', '    quick_cues.is_main_cue_adjusted = true;\n', '    quick_cues.is_main_cue_adjusted = true;\n    quick_cues.quick_cues.clear();\n', 'track_impl::set_main_cue', r'ensures cue_slots_kept'),
        ('1.x set_main_cue drops the hot cues', E + 'v1/engine_track_impl.cpp', '    quick_cues_d.default_main_cue = sample_offset.value_or(0);\n', '    quick_cues_d.default_main_cue = sample_offset.value_or(0);\n    quick_cues_d.hot_cues.clear();\n', 'v1::engine_track_impl::set_main_cue', r'ensures cue_slots_kept'),
        ('1.x set_hot_cue_at overwrites the neighbouring slot too', E + 'v1/engine_track_impl.cpp', '    quick_cues_d.hot_cues[index] = std::move(cue);\n', '    quick_cues_d.hot_cues[index] = std::move(cue);\n    if (index > 0) quick_cues_d.hot_cues[index - 1] = std::nullopt;\n', 'v1::engine_track_impl::set_hot_cue_at', r'ensures other_slots_kept'),
        ('1.x set_loops pads to seven slots', E + 'v1/engine_track_impl.cpp', '    if (loops_d.loops.size() < 8)\n        loops_d.loops.resize(8);', '    if (loops_d.loops.size() < 7)\n        loops_d.loops.resize(7);', 'v1::engine_track_impl::set_loops', r'ensures padded'),
        ('1.x set_average_loudness forgets the stored key', E + 'v1/engine_track_impl.cpp', '        average_loudness.value_or(0) == 0 ? std::nullopt : average_loudness;\n', '        average_loudness.value_or(0) == 0 ? std::nullopt : average_loudness;\n    track_d.key = std::nullopt;\n', 'v1::engine_track_impl::set_average_loudness', r'ensures rest_of_track_data'),
        ('1.x beatgrid() returns the default grid', E + 'v1/engine_track_impl.cpp', '    return std::move(beat_d.adjusted_beatgrid);', '    return std::move(beat_d.default_beatgrid);', 'v1::engine_track_impl::beatgrid', r'ensures (size|marker)'),
        ('year() reads the play order', E + 'v2/track_impl.cpp', 'optional_static_cast<int>(track_.get_year(id()))', 'optional_static_cast<int>(track_.get_play_order(id()))', 'track_impl::year', r'ensures value'),
    ],
    'C01': [
        ('publisher written to the composer column', E + 'v2/track_impl.cpp', '        snapshot.publisher,\n        snapshot.composer,', '        snapshot.composer,\n        snapshot.publisher,', 'snapshot_to_row', r'ensures (publisher|composer)'),
        ('rating clamped to 0-99', E + 'v2/convert_track.hpp', 'std::clamp(rating.value_or(RATING_NONE), 0, 100)', 'std::clamp(rating.value_or(RATING_NONE), 0, 99)', 'snapshot_to_row', r'ensures rating'),
        ('year read from the play order column', E + 'v2/track_impl.cpp', 'snapshot.year = djinterop::util::optional_static_cast<int>(row.year);', 'snapshot.year = djinterop::util::optional_static_cast<int>(row.play_order);', 'track_impl::snapshot', r'ensures year'),
        ('hot cues padded to seven slots', E + 'v2/convert_hot_cues.hpp', 'while (converted.size() < MAX_QUICK_CUES)', 'while (converted.size() + 1 < MAX_QUICK_CUES)', 'convert::write::hot_cues', r'ensures padded|invariant'),
        ('loop colour dropped on read', E + 'v2/convert_loops.hpp', 'l.label, l.start_sample_offset, l.end_sample_offset,\n                     l.color})', 'l.label, l.start_sample_offset, l.end_sample_offset,\n                     pad_color{}})', 'convert::read::loops', r'ensures slot|invariant'),
        ('duration rounded up on read', E + 'v2/convert_track.hpp', 'return std::chrono::milliseconds{length * 1000};', 'return std::chrono::milliseconds{length * 1000 + 999};', 'convert::read::duration', r'ensures milliseconds'),
    ],
    'C05': [
        ('v2 beat grid: count read with 7 bytes left', E + 'v2/beat_data_blob.cpp', 'if (end - ptr < 8)', 'if (end - ptr < 7)', 'v2::(anonymous namespace)::decode_beatgrid', r'precondition of decode_int64_be'),
        ('v2 loops: length byte read at the end', E + 'v2/loops_blob.cpp', 'if (end - ptr < 1)', 'if (end - ptr < 0)', 'v2::loops_blob::from_blob', r'precondition of decode_uint8'),
        ('v2 quick cues: one byte short', E + 'v2/quick_cues_blob.cpp', 'end - ptr < 29 + label_length', 'end - ptr < 28 + label_length', 'v2::quick_cues_blob::from_blob', r'precondition of|readable'),
        ('zlib_uncompress: truncated stream not detected', E + 'encode_decode_utils.cpp', 'if (ret != Z_STREAM_END && ptr == end)', 'if (false && ptr == end)', 'zlib_uncompress', r'decreases|variant|zlib'),
    ],
    'C13': [
        ('1.7.x accepts patch 2', E + 'schema/schema.cpp', 'case 7:\n                    REQUIRE_PATCH_VERSION(version, 1);', 'case 7:\n                    REQUIRE_PATCH_VERSION(version, 2);', 'detect_schema', r'ensures (table|supported)|unsupported'),
        ('both layouts present is accepted', E + 'engine_library_dir_utils.cpp', 'if (legacy_m_db_path_exists && database2_m_db_path_exists)', 'if (false)', 'detect_is_database2', r'ensures layout'),
    ],
    'C19': [
        ('quantisation number not rounded to a multiple of two', E + 'track_utils.hpp', '(static_cast<int64_t>(sample_rate) / 210) * 2', 'static_cast<int64_t>(sample_rate) / 105', 'waveform_quantisation_number', r'ensures (value|even_nonneg)'),
        ('overview span not rounded down', E + 'track_utils.hpp', 'auto rounded_sample_count = (sample_count / qn) * qn;', 'auto rounded_sample_count = sample_count;', 'calculate_overview_waveform_extents', r'ensures span'),
    ],
    'C20': [
        ('first marker extrapolated by 3 beats', E + 'engine.cpp', '(4 + beatgrid[0].index) * samples_per_beat', '(3 + beatgrid[0].index) * samples_per_beat', 'normalize_beatgrid', r'tempo|first|samples_per_beat'),
        ('floor instead of ceil for the last marker', E + 'engine.cpp', 'static_cast<int32_t>(std::ceil(', 'static_cast<int32_t>(std::floor(', 'normalize_beatgrid', r'last_at_or_beyond_end|within_one_beat'),
    ],
    'C02': [
        ('int32_be written little-endian', E + 'encode_decode_utils.hpp', 'ptr[0] = static_cast<std::byte>((value >> 24) & 0xFF);\n    ptr[1] = static_cast<std::byte>((value >> 16) & 0xFF);', 'ptr[1] = static_cast<std::byte>((value >> 24) & 0xFF);\n    ptr[0] = static_cast<std::byte>((value >> 16) & 0xFF);', 'encode_int32_be', r'ensures bytes'),
        ('quick cue colour written r before a', E + 'v2/quick_cues_blob.cpp', 'ptr = encode_uint8(quick_cue.color.a, ptr);\n        ptr = encode_uint8(quick_cue.color.r, ptr);', 'ptr = encode_uint8(quick_cue.color.r, ptr);\n        ptr = encode_uint8(quick_cue.color.a, ptr);', 'v2::quick_cues_blob::to_blob#loop1', r'ensures colour'),
        ('beat data: adjusted grid written before default grid', E + 'v2/beat_data_blob.cpp', 'ptr = encode_beatgrid(default_beat_grid, ptr);\n    ptr = encode_beatgrid(adjusted_beat_grid, ptr);', 'ptr = encode_beatgrid(adjusted_beat_grid, ptr);\n    ptr = encode_beatgrid(default_beat_grid, ptr);', 'v2::beat_data_blob::to_blob', r'content: default grid'),
        ('track data decoder reads the key before the sample count', E + 'v2/track_data_blob.cpp', 'std::tie(result.samples, ptr) = decode_int64_be(ptr);\n    std::tie(result.key, ptr) = decode_int32_be(ptr);', 'std::tie(result.key, ptr) = decode_int32_be(ptr);\n    std::tie(result.samples, ptr) = decode_int64_be(ptr);', 'v2::track_data_blob::from_blob@layout', r'content: i64be sample count'),
    ],
    'C03': [
        ('labels of 256 bytes accepted', E + 'v2/loops_blob.cpp', 'if (loop.label.length() > 255)', 'if (loop.label.length() > 256)', 'v2::loops_blob::to_blob#loop1', r'fits|too_long'),
        ('v1: nine hot cues accepted', E + 'v1/performance_data_format.cpp', 'if (hot_cues.size() > 8)', 'if (hot_cues.size() > 9)', 'v1::quick_cues_data::encode', r'exactly 8 hot cue slots'),
    ],
    'C04': [
        ('last trailing byte dropped', E + 'encode_decode_utils.hpp', 'extra_data.resize(end - ptr);', 'extra_data.resize(end - ptr > 0 ? end - ptr - 1 : 0);', 'decode_extra', r'ensures (size|consumes_all)'),
        ('set_loops writes a freshly built loops blob (trailing bytes of the stored one dropped)', E + 'v2/track_impl.cpp', '    loops_blob.loops = convert::write::loops(loops).loops;\n', '    loops_blob = convert::write::loops(loops);\n', 'track_impl::set_loops', r'ensures extra_kept'),
        ('set_main_cue clears the trailing bytes of the quick-cues blob', E + 'v2/track_impl.cpp', '    quick_cues.is_main_cue_adjusted = true;\n', '    quick_cues.is_main_cue_adjusted = true;\n    quick_cues.extra_data.clear();\n', 'track_impl::set_main_cue', r'ensures cue_slots_kept'),
        ('set_average_loudness flips the first trailing byte of the track-data blob', E + 'v2/track_impl.cpp', '    track_data.average_loudness_high = converted;\n', '    track_data.average_loudness_high = converted;\n    if (!track_data.extra_data.empty()) track_data.extra_data[0] = std::byte{0};\n', 'track_impl::set_average_loudness', r'ensures rest_of_blob'),
        ('loop flags normalised on decode', E + 'v2/loops_blob.cpp', 'std::tie(loop.is_start_set, ptr) = decode_uint8(ptr);', 'std::tie(loop.is_start_set, ptr) = decode_uint8(ptr);\n        loop.is_start_set = loop.is_start_set ? 1 : 0;', 'v2::loops_blob::from_blob#loop0', r'ensures flags'),
    ],
    'C15': [
        ('v2 hot_cue_at accepts index == size', E + 'v2/track_impl.cpp', '(unsigned)index >= quick_cues.quick_cues.size()', '(unsigned)index > quick_cues.quick_cues.size()', 'v2::track_impl::hot_cue_at,v2::track_impl::set_hot_cue_at', r'vector index in range'),
        ('waveform written without sample rate', E + 'v2/convert_waveform.hpp', 'if (!sample_count || !sample_rate)', 'if (!sample_count)', 'convert::write::waveform', r'optional engaged'),
    ],
}


def main():
    pid = sys.argv[1]
    out = []
    base = '/var/tmp/verif_sens_%s_%d' % (pid, os.getpid())
    sel = os.environ.get('VERIF_SENS_ONLY')       # development aid: run only the mutations whose name contains this text
    for name, f, old, new, only, expect in MUTATIONS.get(pid, []):
        if sel and sel not in name:
            continue
        shutil.rmtree(base, ignore_errors=True)
        os.makedirs(base)
        try:
            for d in ('src', 'include'):
                shutil.copytree(os.path.join('/repo', d), os.path.join(base, d))
            os.symlink('/repo/ext', os.path.join(base, 'ext'))
            if os.path.exists('/repo/_build/include'):
                os.makedirs(os.path.join(base, '_build'))
                os.symlink('/repo/_build/include', os.path.join(base, '_build', 'include'))
            p = os.path.join(base, f)
            s = open(p).read()
            if s.count(old) < 1:
                out.append({'mutation': name, 'result': 'not-applicable (source text changed)'})
                continue
            open(p, 'w').write(s.replace(old, new))
            env = dict(os.environ, VERIF_REPO=base, VERIF_EVIDENCE_DIR=os.path.join(base, 'evidence'), VERIF_ONLY=only, VERIF_REPLAY_DIR=os.path.join(base, 'replays'), VERIF_OUT_DIR=os.path.join(base, 'out'))
            r = subprocess.run([os.path.join(VERIF, 'check'), pid, '--tier', 'quick'], stdout=subprocess.PIPE, stderr=subprocess.STDOUT, text=True, env=env, cwd=VERIF)
            viol = [l for l in r.stdout.splitlines() if l.startswith('VIOLATION') or l.startswith('  failed obligation')]
            hit = any(re.search(expect, l) for l in viol)
            if not hit and r.returncode == 1:
                # the expected obligation may not be the first one reported: look at every failed obligation in the replay files
                import glob
                for rf in glob.glob(os.path.join(base, 'replays', '*.json')):
                    try:
                        hit = hit or any(re.search(expect, o['desc']) for o in json.load(open(rf))['failed_obligations'])
                    except Exception:
                        pass
            out.append({'mutation': name, 'file': f, 'exit': r.returncode, 'expected_obligation': expect, 'detected': bool(r.returncode == 1 and hit),
                        'report': viol[:4] or r.stdout.splitlines()[-3:]})
        finally:
            shutil.rmtree(base, ignore_errors=True)
    json.dump(out, sys.stdout, indent=1)


if __name__ == '__main__':
    main()
