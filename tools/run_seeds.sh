#!/bin/bash
# Apply each seeded change to /repo, run the checks that should catch it, undo it.  Usage: tools/run_seeds.sh [seed ...]
cd /verif
declare -A CHECKS=( [C05a]="C05" [C13]="C13" [C19]="C19" [C20]="C20" [C02]="C02" [C03]="C03 C02" [C04]="C04 C02" [C15]="C15"
  [r2C02]="C02" [r2C03]="C03 C02" [r2C04]="C04 C02" [r2C05a]="C05" [r2C05b]="C05" [r2C13]="C13" [r2C15]="C15 C19" [r2C19]="C19" [r2C20]="C20" [r3C01a]="C01" [r3C01b]="C01" [r3C06]="C06"
  [r4C01]="C01" [r4C02]="C02" [r4C03]="C03 C02" [r4C04]="C04" [r4C05]="C05" [r4C06a]="C06 C15" [r4C06b]="C06" [r4C15]="C15 C01" )
SEEDS=${@:-C13 C19 C20 C15 C05a C03 C04 C02}
for s in $SEEDS; do
  if ! git -C /repo diff --quiet; then echo "/repo has uncommitted changes: abort"; exit 3; fi
  git -C /repo apply /verif/seeded/$s/patch.diff || { echo "== $s: patch does not apply"; continue; }
  for c in ${CHECKS[$s]}; do
    echo "== seed $s vs check $c"
    VERIF_EVIDENCE_DIR=/var/tmp/w/evid_seed ./check $c 2>&1 | grep -E "^(VIOLATION|PASS|UNDECIDED|KNOWN-FINDING|  failed obligation)" | cut -c1-260
    echo "   exit=${PIPESTATUS[0]}"
  done
  git -C /repo checkout -- .
done
