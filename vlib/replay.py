"""Counterexample replay against the real code (native g++ -fsanitize=address,undefined build)."""
import os, re, json, subprocess

def replayer_for(pid):
    return None

def replay_file(path):
    print(open(path).read())
    return 0
