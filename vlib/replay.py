"""Counterexample replay against the real code.

For the blob decoders and zlib_uncompress (C05): the failed obligation is re-run on the replay variant of the harness
(inputs in named static arrays <= 96 bytes, loops unwound, no loop contracts), the input bytes are read off cbmc's
trace, and the REAL function of the /repo working tree (g++ -fsanitize=address,undefined, the real .cpp #included)
is run on them under a 10 s watchdog.  A sanitizer report, a signal, a hang or a non-std exception = reproduced.
"""
import os, re, json, subprocess, tempfile, shutil
from . import cbmcdrv
from .cbmcdrv import Undecided

REPO = os.environ.get('VERIF_REPO', '/repo')

# public decoder -> (C++ call on `blob`, payload is zlib-compressed?, translation units to #include)
E = 'src/djinterop/engine/'
DECODERS = {
    'djinterop::engine::v2::beat_data_blob::from_blob': ('djinterop::engine::v2::beat_data_blob::from_blob(blob)', True, [E + 'v2/beat_data_blob.cpp']),
    'djinterop::engine::v2::quick_cues_blob::from_blob': ('djinterop::engine::v2::quick_cues_blob::from_blob(blob)', True, [E + 'v2/quick_cues_blob.cpp']),
    'djinterop::engine::v2::loops_blob::from_blob': ('djinterop::engine::v2::loops_blob::from_blob(blob)', False, [E + 'v2/loops_blob.cpp']),
    'djinterop::engine::v2::overview_waveform_data_blob::from_blob': ('djinterop::engine::v2::overview_waveform_data_blob::from_blob(blob)', True, [E + 'v2/overview_waveform_data_blob.cpp']),
    'djinterop::engine::v2::track_data_blob::from_blob': ('djinterop::engine::v2::track_data_blob::from_blob(blob)', True, [E + 'v2/track_data_blob.cpp']),
    'djinterop::engine::v1::beat_data::decode': ('djinterop::engine::v1::beat_data::decode(blob)', True, [E + 'v1/performance_data_format.cpp']),
    'djinterop::engine::v1::high_res_waveform_data::decode': ('djinterop::engine::v1::high_res_waveform_data::decode(blob)', True, [E + 'v1/performance_data_format.cpp']),
    'djinterop::engine::v1::loops_data::decode': ('djinterop::engine::v1::loops_data::decode(blob)', False, [E + 'v1/performance_data_format.cpp']),
    'djinterop::engine::v1::overview_waveform_data::decode': ('djinterop::engine::v1::overview_waveform_data::decode(blob)', True, [E + 'v1/performance_data_format.cpp']),
    'djinterop::engine::v1::quick_cues_data::decode': ('djinterop::engine::v1::quick_cues_data::decode(blob)', True, [E + 'v1/performance_data_format.cpp']),
    'djinterop::engine::v1::track_data::decode': ('djinterop::engine::v1::track_data::decode(blob)', True, [E + 'v1/performance_data_format.cpp']),
    'djinterop::engine::zlib_uncompress': ('djinterop::engine::zlib_uncompress(blob)', None, []),
    # helpers in an anonymous namespace are reachable because the harness #includes the real .cpp; the buffer is an exactly
    # sized heap vector, so a read past `end` is an ASan report
    'djinterop::engine::v2::(anonymous namespace)::decode_beatgrid': ('djinterop::engine::v2::decode_beatgrid(blob.data(), blob.data() + blob.size())', False, [E + 'v2/beat_data_blob.cpp']),
    'djinterop::engine::v1::(anonymous namespace)::decode_beatgrid': ('djinterop::engine::v1::decode_beatgrid(blob.data(), blob.data() + blob.size())', False, [E + 'v1/performance_data_format.cpp']),
}
# helpers are replayed through the public decoder that reaches them
VIA = {}


def trace_inputs(trace_text):
    """last value assigned to every verif_in[i] / verif_payload[i] and to the two lengths"""
    out = {'verif_in': {}, 'verif_payload': {}, 'verif_in_len': None, 'verif_payload_len': None}
    for m in re.finditer(r'^\s*(verif_in|verif_payload)=\{([^}]*)\}', trace_text, re.M):
        vals = [int(x) for x in re.findall(r'-?\d+', m.group(2))]
        out[m.group(1)] = {i: v & 0xFF for i, v in enumerate(vals)}
    for m in re.finditer(r'^\s*(verif_in|verif_payload)\[(\d+)l?\]=(\d+)', trace_text, re.M):
        out[m.group(1)][int(m.group(2))] = int(m.group(3))
    for m in re.finditer(r'^\s*(verif_in_len|verif_payload_len)=(\d+)', trace_text, re.M):
        out[m.group(1)] = int(m.group(2))
    res = {}
    for k in ('verif_in', 'verif_payload'):
        n = out[k + '_len']
        if n is not None and n < (1 << 20):
            res[k] = [out[k].get(i, 0) for i in range(n)]
    return res


def native_run(call, compressed, tus, payload, outdir, tag):
    src = os.path.join(outdir, 'replay_%s.cpp' % tag)
    exe = os.path.join(outdir, 'replay_%s' % tag)
    inc = ['#include "%s/%s"' % (REPO, t) for t in tus] + ['#include "%s/src/djinterop/engine/encode_decode_utils.cpp"' % REPO]
    code = '\n'.join(inc) + '''
#include <cstdio>
#include <cstdlib>
#include <csignal>
#include <unistd.h>
#include <zlib.h>
static const unsigned char bytes[] = {%s};
int main() {
  std::vector<std::byte> payload(sizeof(bytes) - 1);
  for (size_t i = 0; i + 1 < sizeof(bytes); ++i) payload[i] = static_cast<std::byte>(bytes[i]);
  std::vector<std::byte> blob;
  if (%d) {   // 4-byte big-endian length + zlib stream, built with zlib itself (not with the code under test)
    uLongf n = compressBound(payload.size());
    std::vector<unsigned char> z(n);
    compress2(z.data(), &n, reinterpret_cast<const Bytef*>(payload.data()), payload.size(), 6);
    uint32_t len = static_cast<uint32_t>(payload.size());
    blob.push_back(std::byte(len >> 24)); blob.push_back(std::byte(len >> 16)); blob.push_back(std::byte(len >> 8)); blob.push_back(std::byte(len));
    for (uLongf i = 0; i < n; ++i) blob.push_back(std::byte(z[i]));
  } else blob = payload;
  alarm(10);
  try { (void)%s; std::puts("REPLAY: returned"); }
  catch (const std::exception& e) { std::printf("REPLAY: std::exception %%s\\n", e.what()); }
  catch (...) { std::puts("REPLAY: NON-STD EXCEPTION"); return 3; }
  return 0;
}
''' % (', '.join(str(b) for b in payload) + (', ' if payload else '') + '0', 1 if compressed else 0, call)
    open(src, 'w').write(code)
    gen = cbmcdrv.gen_dir(REPO, outdir)
    cmd = ['g++', '-std=c++17', '-O1', '-g', '-fsanitize=address,undefined', '-fno-sanitize-recover=undefined', '-fsanitize=float-cast-overflow',
           '-I%s/include' % REPO, '-I' + gen, '-I%s/src' % REPO, '-I%s/ext/sqlite_modern_cpp' % REPO, '-I%s/ext/date' % REPO, src, '-lz', '-o', exe]
    p = subprocess.run(cmd, stdout=subprocess.PIPE, stderr=subprocess.PIPE, text=True)
    if p.returncode != 0:
        raise Undecided('native replay harness does not compile: %s' % p.stderr[-800:])
    try:
        r = subprocess.run([exe], stdout=subprocess.PIPE, stderr=subprocess.PIPE, text=True, timeout=15)
        rc, so, se = r.returncode, r.stdout, r.stderr
    except subprocess.TimeoutExpired as e:
        rc, so, se = 'timeout', '', 'watchdog: no return within 15 s'
    bad = rc != 0 or 'ERROR: AddressSanitizer' in se or 'runtime error:' in se
    return {'rc': rc, 'stdout': so[-400:], 'stderr': se[-1500:], 'reproduced': bool(bad), 'harness': src}


def replayer_for(pid):
    if pid == 'C05':
        return replay_decoder
    if pid in ('C19', 'C20'):
        return replay_numeric
    return None


# ---- C19 / C20: the z3 model of a failed VC gives concrete arguments; the real function is called with them and the
# ---- failed postcondition is re-evaluated on the real result with exact rational arithmetic -------------------------
NUMERIC = {
    'djinterop::engine::util::waveform_quantisation_number': ('long long', 'djinterop::engine::util::waveform_quantisation_number(sample_rate)', ['src/djinterop/engine/track_utils.hpp']),
    'djinterop::engine::util::calculate_high_resolution_waveform_extents': ('extents', 'djinterop::engine::util::calculate_high_resolution_waveform_extents(sample_count, sample_rate)', ['src/djinterop/engine/track_utils.hpp']),
    'djinterop::engine::util::calculate_overview_waveform_extents': ('extents', 'djinterop::engine::util::calculate_overview_waveform_extents(sample_count, sample_rate)', ['src/djinterop/engine/track_utils.hpp']),
    'djinterop::engine::calculate_high_resolution_waveform_extents': ('extents', 'djinterop::engine::calculate_high_resolution_waveform_extents(sample_count, sample_rate)', ['src/djinterop/engine/engine.cpp']),
    'djinterop::engine::calculate_overview_waveform_extents': ('extents', 'djinterop::engine::calculate_overview_waveform_extents(sample_count, sample_rate)', ['src/djinterop/engine/engine.cpp']),
    'djinterop::engine::normalize_beatgrid': ('grid', 'djinterop::engine::normalize_beatgrid(beatgrid, sample_count)', ['src/djinterop/engine/engine.cpp']),
}


def _frac(s):
    from fractions import Fraction
    s = s.strip().rstrip('?')
    try:
        return Fraction(s)
    except Exception:
        return None


def replay_numeric(pid, P, specs, r, failed, outdir):
    from fractions import Fraction
    key = r.key.split('@')[0]
    if key not in NUMERIC or r.backend != 'vcgen':
        return None
    kind, call, tus = NUMERIC[key]
    o = next((x for x in failed if x.get('model')), None)
    if o is None:
        return None
    model = o['model']
    # arguments: scalars are model constants named <param>!<n>; the grid is read from its arrays
    def scalar(name):
        for k, v in model.items():
            if k.startswith(name + '!'):
                return _frac(v)
        return None
    sc = scalar('sample_count')
    if sc is None:
        sc = Fraction(0)
    lines = ['#include <cstdio>', '#include <vector>', '#include <stdexcept>', '#include <djinterop/djinterop.hpp>'] + ['#include "%s/%s"' % (REPO, t) for t in tus if t.endswith('.hpp')]
    body = []
    if kind == 'grid':
        n = scalar('beatgrid.size')
        if n is None or n > 64:
            return {'verdict': 'no-input', 'detail': 'model grid too large to replay (%s markers)' % n}
        idx = _array(model, 'beatgrid.index[]', int(n))
        off = _array(model, 'beatgrid.sample_offset[]', int(n))
        if idx is None or off is None:
            return {'verdict': 'no-input', 'detail': 'could not read the grid out of the z3 model'}
        body.append('std::vector<djinterop::beatgrid_marker> beatgrid{%s};' % ', '.join('{%d, %s}' % (int(i), _dbl(f)) for i, f in zip(idx, off)))
        body.append('long long sample_count = %dLL;' % int(sc))
        body.append('try { auto g = %s; std::printf("[");  for (size_t i = 0; i < g.size(); ++i) std::printf("%%s[%%d, %%a]", i ? "," : "", g[i].index, g[i].sample_offset); std::printf("]\\n"); } catch (const std::invalid_argument&) { std::printf("\\"invalid_argument\\"\\n"); }' % call)
        inputs = {'beatgrid': [[int(i), str(f)] for i, f in zip(idx, off)], 'sample_count': int(sc)}
    else:
        rate = scalar('sample_rate') or Fraction(0)
        body.append('unsigned long long sample_count = %dULL; double sample_rate = %s;' % (int(sc), _dbl(rate)))
        if kind == 'extents':
            body.append('auto e = %s; std::printf("[%%llu, %%a]\\n", e.size, e.samples_per_entry);' % call)
        else:
            body.append('std::printf("[%%lld]\\n", (long long)%s);' % call)
        inputs = {'sample_count': int(sc), 'sample_rate': str(rate)}
    src = os.path.join(outdir, 'replay_numeric.cpp')
    exe = src[:-4]
    open(src, 'w').write('\n'.join(lines) + '\nint main() {\n  ' + '\n  '.join(body) + '\n  return 0;\n}\n')
    gen = cbmcdrv.gen_dir(REPO, outdir)
    srcs = [src] + [os.path.join(REPO, t) for t in tus if t.endswith('.cpp')]
    cmd = ['g++', '-std=c++17', '-O1', '-g', '-fsanitize=address,undefined', '-fsanitize=float-cast-overflow', '-fno-sanitize-recover=undefined', '-I%s/include' % REPO, '-I' + gen, '-I%s/src' % REPO,
           '-I%s/ext/sqlite_modern_cpp' % REPO, '-I%s/ext/date' % REPO, '-I%s/ext/sqlite-amalgamation' % REPO] + srcs + ['-o', exe]
    blib = '/repo/_build'
    if any(t.endswith('.cpp') for t in tus) and os.path.exists(os.path.join(blib, 'libdjinterop.so')):
        # the translation unit under test is compiled from the working tree; the rest of the library comes from the
        # existing build (the executable's own definitions take precedence over the shared object's)
        cmd += ['-L' + blib, '-ldjinterop', '-Wl,-rpath,' + blib]
    p = subprocess.run(cmd, stdout=subprocess.PIPE, stderr=subprocess.PIPE, text=True)
    if p.returncode != 0:
        # engine.cpp needs the rest of the library: link against the real objects instead
        return {'verdict': 'replay-undecided', 'detail': 'native harness does not link stand-alone: %s' % p.stderr[-400:], 'inputs': inputs}
    q = subprocess.run([exe], stdout=subprocess.PIPE, stderr=subprocess.PIPE, text=True, timeout=20)
    san = q.returncode != 0 or 'runtime error' in q.stderr or 'AddressSanitizer' in q.stderr
    verdict_eval = None
    if not san and kind in ('extents', 'long long'):
        verdict_eval = _eval_post(specs, r.key, o, inputs, q.stdout.strip(), kind)
    if verdict_eval is False:
        return {'verdict': 'reproduced', 'inputs': inputs, 'real_output': q.stdout.strip()[:600],
                'note': 'the real function was called with the arguments of the z3 model and the failed postcondition evaluates to false on its real result (exact rational arithmetic)'}
    return {'verdict': 'reproduced' if san else 'see-output', 'inputs': inputs, 'real_output': q.stdout.strip()[:600], 'stderr': q.stderr[-600:],
            'note': 'real function called with the arguments of the z3 model; a sanitizer report counts as reproduced, otherwise compare real_output with the failed postcondition'}


def _eval_post(specs, key, o, inputs, out, kind):
    """evaluate the failed `ensures <name>` of the contract on the real result, with exact arithmetic"""
    from fractions import Fraction
    import json as _json, math
    m = re.match(r'ensures (\w+)', o['desc'])
    sp = specs.get(key)
    if not m or sp is None or m.group(1) not in sp.ensures:
        return None
    try:
        vals = _json.loads(re.sub(r'0x[0-9a-fA-F.]+p[+-]?\d+', lambda mm: '"%s"' % mm.group(0), out))
    except Exception:
        return None
    class R: pass
    ret = R()
    if kind == 'extents':
        ret.size = int(vals[0]); ret.samples_per_entry = Fraction(float.fromhex(vals[1]))
    else:
        ret = int(vals[0])
    def ToInt(x): return math.floor(x)
    def ToReal(x): return Fraction(x)
    ns = {'And': lambda *a: all(a), 'Or': lambda *a: any(a), 'Not': lambda a: not a, 'Implies': lambda a, b: (not a) or b, 'If': lambda c, a, b: a if c else b,
          'ToInt': ToInt, 'ToReal': ToReal, 'ret': ret, 'sample_count': int(inputs['sample_count']), 'sample_rate': Fraction(inputs['sample_rate'])}
    class IntDiv(int):
        def __truediv__(self, other): return IntDiv(int(self) // int(other))
        def __mul__(self, other): return IntDiv(int(self) * int(other)) if isinstance(other, int) else Fraction(int(self)) * other
        __rmul__ = __mul__
        def __add__(self, other): return IntDiv(int(self) + int(other)) if isinstance(other, int) else Fraction(int(self)) + other
        def __sub__(self, other): return IntDiv(int(self) - int(other)) if isinstance(other, int) else Fraction(int(self)) - other
    ns['ToInt'] = lambda x: IntDiv(math.floor(x))
    ns['sample_count'] = IntDiv(ns['sample_count'])
    if kind == 'extents':
        ret.size = IntDiv(ret.size)
    try:
        for k_, e_ in sp.extra.items():
            if k_.startswith('let.'):
                ns[k_[4:]] = eval(e_, {'__builtins__': {}}, ns)
        return bool(eval(sp.ensures[m.group(1)], {'__builtins__': {}}, ns))
    except Exception:
        return None


def _dbl(fr):
    from fractions import Fraction
    return repr(float(fr))


def _array(model, name, n):
    """values 0..n-1 of a z3 array constant printed as Store(Store(K(Int, d), i, v), ...) or as a lambda/ite"""
    txt = None
    for k, v in model.items():
        if k.startswith(name + '!'):
            txt = v
    if txt is None:
        return None
    txt = txt.replace('\n', ' ')
    m = re.search(r'K\((?:Int|Real),\s*(-?[\d/]+)\)', txt)
    if not m:
        return None
    default = _frac(m.group(1))
    vals = {}
    for mm in re.finditer(r',\s*(-?\d+),\s*(-?[\d/]+)\)', txt):
        vals.setdefault(int(mm.group(1)), _frac(mm.group(2)))
    # Store chains print innermost first: the outermost (last) store wins
    vals = {}
    for mm in re.finditer(r',\s*(-?\d+),\s*(-?[\d/]+)\)', txt):
        vals[int(mm.group(1))] = _frac(mm.group(2))
    return [vals.get(i, default) for i in range(n)]


def replay_decoder(pid, P, specs, r, failed, outdir):
    key = r.key.split('@')[0]
    top_key = VIA.get(key, key)
    if top_key not in DECODERS or not r.info.get('path'):
        return None
    call, compressed, tus = DECODERS[top_key]
    # counterexample on the replay variant of the (public) decoder's harness, for the failed obligations
    info = r.info if top_key == key else cbmcdrv.build_check(P, specs, top_key, outdir)
    names = [o for o in failed if o['class'] not in ('loop_invariant_base', 'loop_invariant_step', 'loop_assigns', 'loop_decreases')]
    res = cbmcdrv.run_cbmc(info, timeout=300, defs=('VERIF_CBMC', 'VERIF_ABSTRACT', 'VERIF_REPLAY', 'VERIF_MAXBUF=96UL'), unwind=10, unwind_assert=False,
                           tag='.replay', trace_props=names if top_key == key else [], extra=(['--trace'] if top_key != key else []))
    ins = trace_inputs(res.get('trace_text', ''))
    payload = ins.get('verif_payload') if compressed else ins.get('verif_in')
    if compressed is None:
        payload = ins.get('verif_in')
    if payload is None:
        return {'verdict': 'no-input', 'detail': 'cbmc gave no trace for the replay variant (the failure may need more than 96 input bytes)'}
    nat = native_run(call, bool(compressed), tus, payload, outdir, re.sub(r'[^A-Za-z0-9]', '_', top_key)[-40:])
    return {'verdict': 'reproduced' if nat['reproduced'] else 'not-reproduced', 'input_bytes': payload, 'input_is': 'uncompressed payload' if compressed else 'blob',
            'native': nat, 'call': call}


def replay_file(path):
    d = json.load(open(path))
    print(json.dumps(d, indent=1)[:6000])
    rp = d.get('replay') or {}
    if rp.get('native', {}).get('harness') and os.path.exists(rp['native']['harness']):
        exe = rp['native']['harness'][:-4]
        if os.path.exists(exe):
            r = subprocess.run([exe], stdout=subprocess.PIPE, stderr=subprocess.PIPE, text=True)
            print('re-run of the native harness: rc=%s\n%s' % (r.returncode, r.stderr[-1200:]))
            return 1 if r.returncode != 0 else 0
    return 0
