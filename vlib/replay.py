"""Counterexample replay against the real code.

For the blob decoders and zlib_uncompress (C05): the failed obligation is re-run on the replay variant of the harness
(inputs in named static arrays <= 96 bytes, loops unwound, no loop contracts), the input bytes are read off cbmc's
trace, and the REAL function of the /repo working tree (g++ -fsanitize=address,undefined, the real .cpp #included)
is run on them under a 10 s watchdog.  A sanitizer report, a signal, a hang or a non-std exception = reproduced.
"""
import os, re, json, subprocess, tempfile, shutil
from . import cbmcdrv
from .cbmcdrv import Undecided

REPO = os.environ.get('VERIF_REPO', '/repo')

# public decoder -> (C++ call on `blob`, payload is zlib-compressed?, translation units to #include)
E = 'src/djinterop/engine/'
DECODERS = {
    'djinterop::engine::v2::beat_data_blob::from_blob': ('djinterop::engine::v2::beat_data_blob::from_blob(blob)', True, [E + 'v2/beat_data_blob.cpp']),
    'djinterop::engine::v2::quick_cues_blob::from_blob': ('djinterop::engine::v2::quick_cues_blob::from_blob(blob)', True, [E + 'v2/quick_cues_blob.cpp']),
    'djinterop::engine::v2::loops_blob::from_blob': ('djinterop::engine::v2::loops_blob::from_blob(blob)', False, [E + 'v2/loops_blob.cpp']),
    'djinterop::engine::v2::overview_waveform_data_blob::from_blob': ('djinterop::engine::v2::overview_waveform_data_blob::from_blob(blob)', True, [E + 'v2/overview_waveform_data_blob.cpp']),
    'djinterop::engine::v2::track_data_blob::from_blob': ('djinterop::engine::v2::track_data_blob::from_blob(blob)', True, [E + 'v2/track_data_blob.cpp']),
    'djinterop::engine::v1::beat_data::decode': ('djinterop::engine::v1::beat_data::decode(blob)', True, [E + 'v1/performance_data_format.cpp']),
    'djinterop::engine::v1::high_res_waveform_data::decode': ('djinterop::engine::v1::high_res_waveform_data::decode(blob)', True, [E + 'v1/performance_data_format.cpp']),
    'djinterop::engine::v1::loops_data::decode': ('djinterop::engine::v1::loops_data::decode(blob)', False, [E + 'v1/performance_data_format.cpp']),
    'djinterop::engine::v1::overview_waveform_data::decode': ('djinterop::engine::v1::overview_waveform_data::decode(blob)', True, [E + 'v1/performance_data_format.cpp']),
    'djinterop::engine::v1::quick_cues_data::decode': ('djinterop::engine::v1::quick_cues_data::decode(blob)', True, [E + 'v1/performance_data_format.cpp']),
    'djinterop::engine::v1::track_data::decode': ('djinterop::engine::v1::track_data::decode(blob)', True, [E + 'v1/performance_data_format.cpp']),
    'djinterop::engine::zlib_uncompress': ('djinterop::engine::zlib_uncompress(blob)', None, []),
}
# helpers are replayed through the public decoder that reaches them
VIA = {
    'djinterop::engine::v2::(anonymous namespace)::decode_beatgrid': 'djinterop::engine::v2::beat_data_blob::from_blob',
    'djinterop::engine::v1::(anonymous namespace)::decode_beatgrid': 'djinterop::engine::v1::beat_data::decode',
}


def trace_inputs(trace_text):
    """last value assigned to every verif_in[i] / verif_payload[i] and to the two lengths"""
    out = {'verif_in': {}, 'verif_payload': {}, 'verif_in_len': None, 'verif_payload_len': None}
    for m in re.finditer(r'^\s*(verif_in|verif_payload)=\{([^}]*)\}', trace_text, re.M):
        vals = [int(x) for x in re.findall(r'-?\d+', m.group(2))]
        out[m.group(1)] = {i: v & 0xFF for i, v in enumerate(vals)}
    for m in re.finditer(r'^\s*(verif_in|verif_payload)\[(\d+)l?\]=(\d+)', trace_text, re.M):
        out[m.group(1)][int(m.group(2))] = int(m.group(3))
    for m in re.finditer(r'^\s*(verif_in_len|verif_payload_len)=(\d+)', trace_text, re.M):
        out[m.group(1)] = int(m.group(2))
    res = {}
    for k in ('verif_in', 'verif_payload'):
        n = out[k + '_len']
        if n is not None and n < (1 << 20):
            res[k] = [out[k].get(i, 0) for i in range(n)]
    return res


def native_run(call, compressed, tus, payload, outdir, tag):
    src = os.path.join(outdir, 'replay_%s.cpp' % tag)
    exe = os.path.join(outdir, 'replay_%s' % tag)
    inc = ['#include "%s/%s"' % (REPO, t) for t in tus] + ['#include "%s/src/djinterop/engine/encode_decode_utils.cpp"' % REPO]
    code = '\n'.join(inc) + '''
#include <cstdio>
#include <cstdlib>
#include <csignal>
#include <unistd.h>
#include <zlib.h>
static const unsigned char bytes[] = {%s};
int main() {
  std::vector<std::byte> payload(sizeof(bytes) - 1);
  for (size_t i = 0; i + 1 < sizeof(bytes); ++i) payload[i] = static_cast<std::byte>(bytes[i]);
  std::vector<std::byte> blob;
  if (%d) {   // 4-byte big-endian length + zlib stream, built with zlib itself (not with the code under test)
    uLongf n = compressBound(payload.size());
    std::vector<unsigned char> z(n);
    compress2(z.data(), &n, reinterpret_cast<const Bytef*>(payload.data()), payload.size(), 6);
    uint32_t len = static_cast<uint32_t>(payload.size());
    blob.push_back(std::byte(len >> 24)); blob.push_back(std::byte(len >> 16)); blob.push_back(std::byte(len >> 8)); blob.push_back(std::byte(len));
    for (uLongf i = 0; i < n; ++i) blob.push_back(std::byte(z[i]));
  } else blob = payload;
  alarm(10);
  try { (void)%s; std::puts("REPLAY: returned"); }
  catch (const std::exception& e) { std::printf("REPLAY: std::exception %%s\\n", e.what()); }
  catch (...) { std::puts("REPLAY: NON-STD EXCEPTION"); return 3; }
  return 0;
}
''' % (', '.join(str(b) for b in payload) + (', ' if payload else '') + '0', 1 if compressed else 0, call)
    open(src, 'w').write(code)
    gen = cbmcdrv.gen_dir(REPO, outdir)
    cmd = ['g++', '-std=c++17', '-O1', '-g', '-fsanitize=address,undefined', '-fno-sanitize-recover=undefined', '-fsanitize=float-cast-overflow',
           '-I%s/include' % REPO, '-I' + gen, '-I%s/src' % REPO, '-I%s/ext/sqlite_modern_cpp' % REPO, '-I%s/ext/date' % REPO, src, '-lz', '-o', exe]
    p = subprocess.run(cmd, stdout=subprocess.PIPE, stderr=subprocess.PIPE, text=True)
    if p.returncode != 0:
        raise Undecided('native replay harness does not compile: %s' % p.stderr[-800:])
    try:
        r = subprocess.run([exe], stdout=subprocess.PIPE, stderr=subprocess.PIPE, text=True, timeout=15)
        rc, so, se = r.returncode, r.stdout, r.stderr
    except subprocess.TimeoutExpired as e:
        rc, so, se = 'timeout', '', 'watchdog: no return within 15 s'
    bad = rc != 0 or 'ERROR: AddressSanitizer' in se or 'runtime error:' in se
    return {'rc': rc, 'stdout': so[-400:], 'stderr': se[-1500:], 'reproduced': bool(bad), 'harness': src}


def replayer_for(pid):
    if pid != 'C05':
        return None
    return replay_decoder


def replay_decoder(pid, P, specs, r, failed, outdir):
    key = r.key.split('@')[0]
    top_key = VIA.get(key, key)
    if top_key not in DECODERS or not r.info.get('path'):
        return None
    call, compressed, tus = DECODERS[top_key]
    # counterexample on the replay variant of the (public) decoder's harness, for the failed obligations
    info = r.info if top_key == key else cbmcdrv.build_check(P, specs, top_key, outdir)
    names = [o['name'] for o in failed if o['class'] not in ('loop_invariant_base', 'loop_invariant_step', 'loop_assigns', 'loop_decreases')]
    res = cbmcdrv.run_cbmc(info, timeout=300, defs=('VERIF_CBMC', 'VERIF_ABSTRACT', 'VERIF_REPLAY', 'VERIF_MAXBUF=96UL'), unwind=10, unwind_assert=False,
                           tag='.replay', trace_props=names if top_key == key else [], extra=(['--trace'] if top_key != key else []))
    ins = trace_inputs(res.get('trace_text', ''))
    payload = ins.get('verif_payload') if compressed else ins.get('verif_in')
    if compressed is None:
        payload = ins.get('verif_in')
    if payload is None:
        return {'verdict': 'no-input', 'detail': 'cbmc gave no trace for the replay variant (the failure may need more than 96 input bytes)'}
    nat = native_run(call, bool(compressed), tus, payload, outdir, re.sub(r'[^A-Za-z0-9]', '_', top_key)[-40:])
    return {'verdict': 'reproduced' if nat['reproduced'] else 'not-reproduced', 'input_bytes': payload, 'input_is': 'uncompressed payload' if compressed else 'blob',
            'native': nat, 'call': call}


def replay_file(path):
    d = json.load(open(path))
    print(json.dumps(d, indent=1)[:6000])
    rp = d.get('replay') or {}
    if rp.get('native', {}).get('harness') and os.path.exists(rp['native']['harness']):
        exe = rp['native']['harness'][:-4]
        if os.path.exists(exe):
            r = subprocess.run([exe], stdout=subprocess.PIPE, stderr=subprocess.PIPE, text=True)
            print('re-run of the native harness: rc=%s\n%s' % (r.returncode, r.stderr[-1200:]))
            return 1 if r.returncode != 0 else 0
    return 0
