"""Contract files (/verif/contracts/*.spec): ini-like, one section per function.

[fn <qualified C++ name>]
setup            harness-only C statements that build the inputs (macros from verif_spec.h)
requires.<n>     precondition (assumed by the function's own harness, asserted at every call site)
ensures.<n>      postcondition on normal return (asserted by the harness, assumed after calls)
ensures_exc.<n>  postcondition on exceptional return
old.<n>          expression snapshotted before the call, usable as OLD_<n> in ensures
raises           space separated exception types that may escape ('none' for nothrow)
assigns          comma separated __CPROVER_object_upto(p,n) / lvalues the function may write (caller-visible)
stub_body        C statements that build __ret in the replacement stub (default: nondet)
stub_only.<n>    extra facts assumed by callers that are *axioms* about an external function (listed as assumptions)
loop<k>.invariant.<n> / loop<k>.decreases / loop<k>.assigns   loop contract of the k-th loop (source order)
harness_pre / harness_post   extra harness C code before / after the call
options          space separated flags: external (no body: contract is assumed), inline (callers see the body)
"""
import configparser, glob, os, re, collections


class Spec:
    def __init__(self, key, path):
        self.key, self.path = key, path
        self.setup = ''
        self.requires = collections.OrderedDict()
        self.ensures = collections.OrderedDict()
        self.ensures_exc = collections.OrderedDict()
        self.stub_only = collections.OrderedDict()
        self.derived = collections.OrderedDict()     # name -> (expr, lemma): assumed by callers, justified by a lemma over proved obligations
        self.old = collections.OrderedDict()
        self.raises = None
        self.assigns = []
        self.stub_body = ''
        self.loops = {}
        self.harness_pre = ''
        self.harness_post = ''
        self.options = set()
        self.properties = []
        self.extra = collections.OrderedDict()
        self.is_lemma = False
        self.is_harness = False
        self.tolerate = collections.OrderedDict()   # name -> (regex on obligation description, reason)

    def loop(self, k):
        return self.loops.setdefault(k, {'invariant': collections.OrderedDict(), 'decreases': None, 'assigns': None})


def split_top(s, sep=','):
    out, depth, cur = [], 0, ''
    for ch in s:
        if ch in '([{':
            depth += 1
        elif ch in ')]}':
            depth -= 1
        if ch == sep and depth == 0:
            out.append(cur.strip())
            cur = ''
        else:
            cur += ch
    if cur.strip():
        out.append(cur.strip())
    return out


def load_specs(directory):
    specs = {}
    for path in sorted(glob.glob(os.path.join(directory, '*.spec'))):
        cp = configparser.RawConfigParser(delimiters=('=',), comment_prefixes=('#',), strict=True, interpolation=None)
        cp.optionxform = str
        cp.read(path)
        for sec in cp.sections():
            ml = re.match(r'^lemma\s+(.*)$', sec)
            if ml:
                lem = Spec('lemma:' + ml.group(1).strip(), path)
                lem.is_lemma = True
                for opt, val in cp.items(sec):
                    lem.extra[opt] = ' '.join(l.strip() for l in val.strip().splitlines())
                specs[lem.key] = lem
                continue
            mh = re.match(r'^harness\s+(.*)$', sec)
            if mh:
                h = Spec('harness:' + mh.group(1).strip(), path)
                h.is_harness = True
                for opt, val in cp.items(sec):
                    h.extra[opt] = val.strip()
                h.raises = []
                specs[h.key] = h
                continue
            m = re.match(r'^fn\s+(.*)$', sec)
            if not m:
                raise ValueError('%s: unknown section [%s]' % (path, sec))
            key = m.group(1).strip()
            if key in specs:
                raise ValueError('duplicate contract for %s' % key)
            sp = Spec(key, path)
            for opt, val in cp.items(sec):
                val = ' '.join(l.strip() for l in val.strip().splitlines()) if not opt.startswith(('setup', 'stub_body', 'harness_')) else val.strip()
                if opt == 'setup':
                    sp.setup = val
                elif opt.startswith('requires.'):
                    sp.requires[opt[9:]] = val
                elif opt.startswith('ensures.'):
                    sp.ensures[opt[8:]] = val
                elif opt.startswith('ensures_exc.'):
                    sp.ensures_exc[opt[12:]] = val
                elif opt.startswith('derived.'):
                    ex_, _, by = val.partition('::')
                    sp.derived[opt[8:]] = (ex_.strip(), by.strip())
                elif opt.startswith('stub_only.'):
                    sp.stub_only[opt[10:]] = val
                elif opt.startswith('old.'):
                    sp.old[opt[4:]] = val
                elif opt == 'raises':
                    sp.raises = [] if val.strip() == 'none' else val.split()
                elif opt == 'assigns':
                    sp.assigns = split_top(val)
                elif opt == 'stub_body':
                    sp.stub_body = val
                elif opt == 'harness_pre':
                    sp.harness_pre = val
                elif opt == 'harness_post':
                    sp.harness_post = val
                elif opt == 'options':
                    sp.options = set(val.split())
                elif opt.startswith('tolerate.'):
                    rx, _, why = val.partition('::')
                    sp.tolerate[opt[9:]] = (rx.strip(), why.strip())
                elif opt == 'properties':
                    sp.properties = val.split()
                elif re.match(r'^loop(\d+)\.', opt):
                    mm = re.match(r'^loop(\d+)\.(invariant\.(.+)|decreases|assigns|summary|summary_by)$', opt)
                    if not mm:
                        raise ValueError('%s: bad loop key %s' % (path, opt))
                    lp = sp.loop(int(mm.group(1)))
                    if mm.group(2) == 'decreases':
                        lp['decreases'] = val
                    elif mm.group(2) == 'assigns':
                        lp['assigns'] = val
                    elif mm.group(2) in ('summary', 'summary_by'):
                        lp[mm.group(2)] = val
                    else:
                        lp['invariant'][mm.group(3)] = val
                else:
                    sp.extra[opt] = val
            specs[key] = sp
    return specs
