"""Back end B: a verification-condition generator over the clang AST of the real functions, discharged by z3.

Integers are mathematical Ints with (a) a generated range obligation for every operation whose overflow is undefined
(signed + - * /, double -> int, shifts, negation) and (b) explicit reduction mod 2^n for unsigned arithmetic and for
implementation-defined narrowing conversions.  double is modelled as the reals (stated assumption: floating-point
rounding is not modelled); int -> double is the exact embedding.
Calls are replaced by the callee's contract (assert requires, assume ensures on a fresh result).
Loops need an invariant (spec) and are cut: establish / preserve / use, plus a decreasing variant.
Contract expressions are Python expressions over z3 terms (And, Or, Not, Implies, If, ToInt, ToReal, ForAll, ...).
"""
import re, time, collections
import z3
from cxx2c import astload
from cxx2c.ctypes_ import Unsupported, strip_ref, mangle

INT_RANGE = {}
for b in (8, 16, 32, 64):
    INT_RANGE[(b, True)] = (-(1 << (b - 1)), (1 << (b - 1)) - 1)
    INT_RANGE[(b, False)] = (0, (1 << b) - 1)


class Obj:
    """record value: attribute access for contracts"""
    def __init__(self, fields=None):
        self.__dict__['f'] = collections.OrderedDict(fields or {})

    def __getattr__(self, k):
        try:
            return self.__dict__['f'][k]
        except KeyError:
            raise AttributeError(k)

    def __setattr__(self, k, v):
        self.__dict__['f'][k] = v

    def copy(self):
        return Obj({k: (v.copy() if hasattr(v, 'copy') and isinstance(v, (Obj, Vec)) else v) for k, v in self.f.items()})


class Vec:
    """vector value: a window [off, off + size) over one z3 array per leaf field of the element type ('' for scalars).
    Erasing a prefix or a suffix only moves the window, so no quantified definition of a new array is needed."""
    def __init__(self, elem_t, size, arrays, off=None):
        self.elem_t, self.size, self.arrays = elem_t, size, dict(arrays)
        self.off = z3.IntVal(0) if off is None else off

    def copy(self):
        return Vec(self.elem_t, self.size, self.arrays, self.off)

    def at(self, i):
        if list(self.arrays.keys()) == ['']:
            return self.arrays[''][self.off + i]
        return Obj({k: a[self.off + i] for k, a in self.arrays.items()})

    def field(self, name):
        """contract view: v.field('index')[j] is element j's field"""
        return _Shifted(self.arrays[name], self.off)

    def __getitem__(self, i):
        return self.at(i)


class _Shifted:
    def __init__(self, arr, off):
        self.arr, self.off = arr, off

    def __getitem__(self, i):
        return self.arr[self.off + i]


class LazyNS(dict):
    """contract namespace: let.<name> definitions are evaluated on first use (some only make sense after the call)"""
    def __missing__(self, k):
        if k in self.lets:
            v = self.engine.pyeval(self.lets[k], self)
            self[k] = v
            return v
        raise KeyError(k)


class Ref:
    """lvalue as a state-independent access path: [('var', decl id), ('field', name), ('index', z3 int)...]"""
    def __init__(self, path):
        self.path = list(path)

    def get(self, st):
        v = st.env[self.path[0][1]]
        for kind, x in self.path[1:]:
            if kind == 'field':
                v = getattr(v, x)
            else:
                v = v.at(x)
        return v

    def set(self, st, val):
        def upd(cur, steps):
            if not steps:
                return val
            kind, x = steps[0]
            if kind == 'field':
                o = cur.copy()
                setattr(o, x, upd(getattr(cur, x), steps[1:]))
                return o
            new_elem = upd(cur.at(x), steps[1:])
            vec = cur.copy()
            if isinstance(new_elem, Obj):
                for p in vec.arrays:
                    e = new_elem
                    for part in p.split('.'):
                        e = getattr(e, part)
                    vec.arrays[p] = z3.Store(vec.arrays[p], vec.off + x, e)
            else:
                vec.arrays[''] = z3.Store(vec.arrays[''], vec.off + x, new_elem)
            return vec
        st.env[self.path[0][1]] = upd(st.env[self.path[0][1]], self.path[1:])

    def extend(self, step):
        return Ref(self.path + [step])


class State:
    def __init__(self):
        self.env = {}          # decl id -> value
        self.pc = []           # path condition conjuncts
        self.status = 'normal'
        self.ret = None
        self.exc = None

    def fork(self):
        s = State()
        s.env = {k: (v.copy() if isinstance(v, (Obj, Vec)) else v) for k, v in self.env.items()}
        s.pc = list(self.pc)
        s.status, s.ret, s.exc = self.status, self.ret, self.exc
        return s


class VC:
    def __init__(self, name, cls, hyps, goal, where=''):
        self.name, self.cls, self.hyps, self.goal, self.where = name, cls, list(hyps), goal, where
        self.status, self.seconds, self.model = None, 0.0, None


class Engine:
    def __init__(self, P, specs, key):
        self.P, self.specs, self.key = P, specs, key
        self.vcs = []
        self.n = 0
        self.assumptions = set()
        self.names = {}        # decl id -> name
        self.callees = []

    def fresh(self, base, sort):
        self.n += 1
        return z3.Const('%s!%d' % (base, self.n), sort)

    # ---- types ------------------------------------------------------------------------------------
    def sort_of(self, t):
        k = t[0]
        if k in ('int', 'enum'):
            return z3.IntSort()
        if k == 'bool':
            return z3.BoolSort()
        if k in ('double', 'float'):
            return z3.RealSort()
        raise Unsupported('vcgen: no scalar sort for %r' % (t,))

    def leaf_fields(self, t, prefix=''):
        """[(path, scalar type)] of a record/scalar element type"""
        if t[0] in ('int', 'enum', 'bool', 'double', 'float'):
            return [(prefix, t)]
        if t[0] == 'rec':
            out = []
            for nm, ft, _ in self.P.record_fields(t[1]):
                out += self.leaf_fields(ft, (prefix + '.' if prefix else '') + nm)
            return out
        raise Unsupported('vcgen: element type %r' % (t,))

    def fresh_value(self, t, base):
        t = strip_ref(t)
        k = t[0]
        if k in ('int', 'enum', 'bool', 'double', 'float'):
            return self.fresh(base, self.sort_of(t))
        if k == 'rec':
            return Obj({nm: self.fresh_value(ft, base + '.' + nm) for nm, ft, _ in self.P.record_fields(t[1])})
        if k == 'vec':
            arrays = {p: self.fresh(base + ('.' + p if p else '') + '[]', z3.ArraySort(z3.IntSort(), self.sort_of(ft))) for p, ft in self.leaf_fields(t[1])}
            return Vec(t[1], self.fresh(base + '.size', z3.IntSort()), arrays)
        if k == 'opt':
            return Obj({'has': self.fresh(base + '.has', z3.BoolSort()), 'val': self.fresh_value(t[1], base + '.val')})
        if k == 'pair':
            return Obj({'first': self.fresh_value(t[1], base + '.first'), 'second': self.fresh_value(t[2], base + '.second')})
        raise Unsupported('vcgen: cannot make a symbolic value of type %r' % (t,))

    def type_constraints(self, v, t):
        """range facts that hold of every value of the C++ type (used as hypotheses for inputs and fresh results)"""
        t = strip_ref(t)
        k = t[0]
        if k == 'int':
            lo, hi = INT_RANGE[(t[1], t[2])]
            return [v >= lo, v <= hi]
        if k == 'enum':
            return []
        if k == 'rec':
            out = []
            for nm, ft, _ in self.P.record_fields(t[1]):
                out += self.type_constraints(getattr(v, nm), ft)
            return out
        if k == 'vec':
            out = [v.size >= 0, v.size <= (1 << 63) - 1]
            j = self.fresh('j', z3.IntSort())
            for p, ft in self.leaf_fields(t[1]):
                if ft[0] == 'int':
                    lo, hi = INT_RANGE[(ft[1], ft[2])]
                    out.append(z3.ForAll([j], z3.And(v.arrays[p][j] >= lo, v.arrays[p][j] <= hi), patterns=[v.arrays[p][j]]))
            return out
        if k == 'opt':
            return self.type_constraints(v.val, t[1])
        if k == 'pair':
            return self.type_constraints(v.first, t[1]) + self.type_constraints(v.second, t[2])
        return []

    def T(self, n):
        return self.P.typeof(n)

    # ---- obligations --------------------------------------------------------------------------------
    def oblige(self, st, cond, name, cls, node=None):
        ln = ''
        if node is not None:
            ln = 'line %s' % (node.get('range', {}).get('begin', {}).get('line') or node.get('loc', {}).get('line') or '?')
        self.vcs.append(VC(name, cls, st.pc, cond, ln))

    def in_range(self, st, v, t, what, node):
        lo, hi = INT_RANGE[(t[1], t[2])]
        self.oblige(st, z3.And(v >= lo, v <= hi), '%s does not overflow %s%d' % (what, 'int' if t[2] else 'uint', t[1]), 'arithmetic_overflow', node)

    def wrap(self, v, t):
        """value of v converted to integer type t with modular (implementation-defined / unsigned) semantics"""
        bits = t[1]
        m = 1 << bits
        if not t[2]:
            return v % m
        r = (v + (m >> 1)) % m - (m >> 1)
        return r

    # ---- expressions ----------------------------------------------------------------------------------
    def only(self, n):
        inner = [x for x in n.get('inner', []) or [] if x]
        if len(inner) != 1:
            raise Unsupported('vcgen: %s with %d children' % (n['kind'], len(inner)))
        return inner[0]

    def ev(self, n, st):
        k = n['kind']
        m = getattr(self, 'x_' + k, None)
        if m is None:
            raise Unsupported('vcgen: no rule for expression %s in %s' % (k, self.key))
        return m(n, st)

    def x_ParenExpr(self, n, st):
        return self.ev(self.only(n), st)

    x_ConstantExpr = x_ExprWithCleanups = x_MaterializeTemporaryExpr = x_CXXBindTemporaryExpr = x_ParenExpr

    def x_IntegerLiteral(self, n, st):
        return z3.IntVal(int(n['value']))

    def x_FloatingLiteral(self, n, st):
        from fractions import Fraction
        return z3.RealVal(str(Fraction(float(n['value']))))

    def x_CXXBoolLiteralExpr(self, n, st):
        return z3.BoolVal(bool(n['value']))

    def lookup(self, rid, st, nm):
        if rid in st.env:
            return st.env[rid]
        raise Unsupported('vcgen: variable %s used before it has a value' % nm)

    def x_DeclRefExpr(self, n, st):
        rd = n['referencedDecl']
        rid = rd['id']
        if rid in st.env:
            return st.env[rid]
        if rd['kind'] == 'EnumConstantDecl':
            node, q = self.P.by_id[rid]
            eq = q.rsplit('::', 1)[0]
            for nm, v in self.P.enums[eq]['values']:
                if nm == rd['name']:
                    return z3.IntVal(v)
        if rd['kind'] == 'VarDecl' and rid in self.P.globals:
            q, node = self.P.globals[rid]
            inits = [x for x in node.get('inner', []) or [] if 'kind' in x and not x['kind'].endswith('Attr')]
            return self.conv_init(inits[0], self.T(node), st)
        raise Unsupported('vcgen: reference to %s %s' % (rd['kind'], rd.get('name')))

    def conv_init(self, n, t, st):
        return self.ev(n, st)

    def x_MemberExpr(self, n, st):
        base = self.ev(self.only(n), st)
        if isinstance(base, Obj):
            return getattr(base, n['name'])
        raise Unsupported('vcgen: member %s of non-record value' % n['name'])

    def x_ImplicitCastExpr(self, n, st):
        ck = n.get('castKind')
        a = self.only(n)
        if ck in ('LValueToRValue', 'NoOp', 'FunctionToPointerDecay', 'ConstructorConversion', 'UserDefinedConversion'):
            return self.ev(a, st)
        v = self.ev(a, st)
        t = self.T(n)
        ft = strip_ref(self.T(a))
        if ck == 'IntegralCast':
            if ft[0] == 'bool':
                return z3.If(v, z3.IntVal(1), z3.IntVal(0))
            if t[0] == 'bool':
                return v != 0
            if t[0] == 'enum' or ft[0] == 'enum':
                return v
            flo, fhi = INT_RANGE[(ft[1], ft[2])]
            tlo, thi = INT_RANGE[(t[1], t[2])]
            if tlo <= flo and fhi <= thi:
                return v            # value preserving
            if self.valid(st, z3.And(v >= tlo, v <= thi), 1000):
                return v            # provably representable on this path: the conversion is the identity
            return self.wrap(v, t)  # modular (unsigned) / implementation-defined (signed narrowing: two's complement)
        if ck == 'IntegralToFloating':
            return self.int_to_double(v, st)
        if ck == 'FloatingToIntegral':
            # [conv.fpint]: truncation toward zero; UB unless the truncated value is representable
            tr = z3.If(v >= 0, z3.ToInt(v), -z3.ToInt(-v))
            self.in_range(st, tr, t, 'double -> integer conversion', n)
            return tr
        if ck == 'FloatingCast':
            return v
        if ck == 'IntegralToBoolean':
            return v != 0
        if ck == 'FloatingToBoolean':
            return v != 0
        raise Unsupported('vcgen: cast kind %s' % ck)

    x_CXXStaticCastExpr = x_CStyleCastExpr = x_CXXFunctionalCastExpr = x_ImplicitCastExpr

    def x_UnaryOperator(self, n, st):
        op = n['opcode']
        a = self.only(n)
        t = self.T(n)
        if op == '!':
            return z3.Not(self.ev(a, st))
        if op == '-':
            v = self.ev(a, st)
            if t[0] == 'int':
                if t[2]:
                    self.in_range(st, -v, t, 'negation', n)
                    return -v
                return self.wrap(-v, t)
            return -v
        if op == '+':
            return self.ev(a, st)
        if op in ('++', '--'):
            ref = self.lv(a, st)
            old = ref.get(st)
            new = old + (1 if op == '++' else -1)
            if t[0] == 'int':
                if t[2]:
                    self.in_range(st, new, t, 'increment' if op == '++' else 'decrement', n)
                else:
                    new = self.wrap(new, t)
            ref.set(st, new)
            return old if n.get('isPostfix') else new
        raise Unsupported('vcgen: unary %s' % op)

    def arith(self, op, a, b, t, st, n):
        if t[0] in ('double', 'float'):
            if op == '+':
                return a + b
            if op == '-':
                return a - b
            if op == '*':
                return a * b
            if op == '/':
                self.oblige(st, b != 0, 'floating-point divisor is not zero (the real-number model has no infinities)', 'fp_domain', n)
                q = self.fresh('quot', z3.RealSort())      # q = a / b stated multiplicatively (kinder to the nonlinear solver)
                st.pc.append(z3.Implies(b != 0, q * b == a))
                return q
            raise Unsupported('vcgen: double %s' % op)
        if t[0] != 'int':
            raise Unsupported('vcgen: arithmetic on %r' % (t,))
        if op in ('+', '-', '*'):
            r = a + b if op == '+' else (a - b if op == '-' else a * b)
            if t[2]:
                self.in_range(st, r, t, 'signed %s' % op, n)
                return r
            lo_, hi_ = INT_RANGE[(t[1], t[2])]
            if self.valid(st, z3.And(r >= lo_, r <= hi_), 1000):
                return r            # no wrap-around possible on this path
            return self.wrap(r, t)
        if op in ('/', '%'):
            self.oblige(st, b != 0, 'integer divisor is not zero', 'division', n)
            # C++ division truncates toward zero; z3 div is floor for positive divisors
            q = z3.If(b > 0, z3.If(a >= 0, a / b, -((-a) / b)), z3.If(a >= 0, -(a / (-b)), (-a) / (-b)))
            if op == '/':
                if t[2]:
                    self.in_range(st, q, t, 'signed /', n)
                return q
            return a - q * b
        raise Unsupported('vcgen: integer %s' % op)

    def x_BinaryOperator(self, n, st):
        op = n['opcode']
        a, b = n['inner']
        if op == '=':
            ref = self.lv(a, st)
            v = self.ev(b, st)
            ref.set(st, v)
            return v
        if op == '&&':
            va = self.ev(a, st)
            st.pc.append(va)
            vb = self.ev(b, st)
            st.pc.pop()
            return z3.And(va, vb)
        if op == '||':
            va = self.ev(a, st)
            st.pc.append(z3.Not(va))
            vb = self.ev(b, st)
            st.pc.pop()
            return z3.Or(va, vb)
        va, vb = self.ev(a, st), self.ev(b, st)
        if op in ('==', '!=', '<', '<=', '>', '>='):
            if isinstance(va, Obj) or isinstance(vb, Obj):
                raise Unsupported('vcgen: comparison of records')
            r = {'==': va == vb, '!=': va != vb, '<': va < vb, '<=': va <= vb, '>': va > vb, '>=': va >= vb}[op]
            return r
        return self.arith(op, va, vb, self.T(n), st, n)

    def x_CompoundAssignOperator(self, n, st):
        a, b = n['inner']
        op = n['opcode'][:-1]
        ref = self.lv(a, st)
        lt = strip_ref(self.T(a))
        ct = n.get('computeResultType', {}).get('desugaredQualType') or n.get('computeResultType', {}).get('qualType')
        cty = self.P.tp.parse(ct) if ct else lt
        old = ref.get(st)
        if cty != lt:
            old = self.convert(old, lt, cty, st, n)
        vb = self.ev(b, st)
        r = self.arith(op, old, vb, cty, st, n)
        if cty != lt:
            r = self.convert(r, cty, lt, st, n)
        ref.set(st, r)
        return r

    def int_to_double(self, v, st):
        """int -> double: exact up to 2^53 in magnitude; beyond that the result is some real within the relative
        error 2^-53 of round-to-nearest (an over-approximation: monotonicity of rounding is not used)"""
        lim = 1 << 53
        if self.valid(st, z3.And(v >= -lim, v <= lim), 1000):
            return z3.ToReal(v)
        self.assumptions.add('int -> double conversion beyond 2^53 is modelled as any real within relative error 2^-53 (round to nearest)')
        r = self.fresh('rounded', z3.RealSort())
        x = z3.ToReal(v)
        eps = z3.RealVal(1) / z3.RealVal(lim)
        st.pc.append(z3.If(z3.And(v >= -lim, v <= lim), r == x,
                           z3.If(v >= 0, z3.And(r >= x * (1 - eps), r <= x * (1 + eps)), z3.And(r <= x * (1 - eps), r >= x * (1 + eps)))))
        return r

    def convert(self, v, frm, to, st, n):
        if frm == to:
            return v
        if frm[0] == 'int' and to[0] in ('double', 'float'):
            return self.int_to_double(v, st)
        if frm[0] in ('double', 'float') and to[0] == 'int':
            tr = z3.If(v >= 0, z3.ToInt(v), -z3.ToInt(-v))
            self.in_range(st, tr, to, 'double -> integer conversion', n)
            return tr
        if frm[0] == 'int' and to[0] == 'int':
            flo, fhi = INT_RANGE[(frm[1], frm[2])]
            tlo, thi = INT_RANGE[(to[1], to[2])]
            return v if (tlo <= flo and fhi <= thi) else self.wrap(v, to)
        if frm[0] in ('double', 'float') and to[0] in ('double', 'float'):
            return v
        raise Unsupported('vcgen: conversion %r -> %r' % (frm, to))

    def x_ConditionalOperator(self, n, st):
        c, a, b = n['inner']
        vc = self.ev(c, st)
        st.pc.append(vc)
        va = self.ev(a, st)
        st.pc.pop()
        st.pc.append(z3.Not(vc))
        vb = self.ev(b, st)
        st.pc.pop()
        if isinstance(va, Obj) or isinstance(vb, Obj):
            return self.ite_obj(vc, va, vb)
        return z3.If(vc, va, vb)

    def ite_obj(self, c, a, b):
        return Obj({k: (self.ite_obj(c, getattr(a, k), getattr(b, k)) if isinstance(getattr(a, k), Obj) else z3.If(c, getattr(a, k), getattr(b, k))) for k in a.f})

    def x_InitListExpr(self, n, st):
        t = strip_ref(self.T(n))
        items = [x for x in n.get('inner', []) or [] if x]
        if t[0] == 'rec':
            fields = self.P.record_fields(t[1])
            if len(items) != len(fields):
                raise Unsupported('vcgen: partial aggregate initialisation')
            return Obj({nm: self.ev(x, st) for (nm, ft, _), x in zip(fields, items)})
        if t[0] in ('int', 'double', 'bool', 'float', 'enum'):
            return self.ev(items[0], st) if items else (z3.IntVal(0) if t[0] in ('int', 'enum') else z3.RealVal(0))
        raise Unsupported('vcgen: init list of %r' % (t,))

    def x_CXXConstructExpr(self, n, st):
        args = [x for x in n.get('inner', []) or [] if x and x.get('kind') != 'CXXDefaultArgExpr']
        t = strip_ref(self.T(n))
        if len(args) == 1 and strip_ref(self.T(args[0])) == t:
            v = self.ev(args[0], st)
            return v.copy() if isinstance(v, (Obj, Vec)) else v
        raise Unsupported('vcgen: constructor of %r with %d args' % (t, len(args)))

    x_CXXTemporaryObjectExpr = x_CXXConstructExpr

    # ---- lvalues ----------------------------------------------------------------------------------------
    def lv(self, n, st):
        k = n['kind']
        if k in ('ParenExpr', 'MaterializeTemporaryExpr', 'ExprWithCleanups') or (k == 'ImplicitCastExpr' and n.get('castKind') == 'NoOp'):
            return self.lv(self.only(n), st)
        if k == 'DeclRefExpr':
            return Ref([('var', n['referencedDecl']['id'])])
        if k == 'MemberExpr':
            return self.lv(self.only(n), st).extend(('field', n['name']))
        if k == 'CXXOperatorCallExpr' and self.callee_name(n) == 'operator[]':
            args = n['inner'][1:]
            vt = strip_ref(self.T(args[0]))
            if vt[0] != 'vec':
                raise Unsupported('vcgen: operator[] on %r' % (vt,))
            base = self.lv(args[0], st)
            idx = self.ev(args[1], st)
            self.oblige(st, z3.And(idx >= 0, idx < base.get(st).size), 'vector index in range', 'cxx_check', n)
            return base.extend(('index', idx))
        if k == 'CXXMemberCallExpr':
            me = n['inner'][0]
            while me['kind'] in ('ImplicitCastExpr', 'ParenExpr'):
                me = self.only(me)
            if me.get('name') in ('front', 'back'):
                base = self.lv(self.only(me), st)
                v = base.get(st)
                self.oblige(st, v.size > 0, '%s() of a non-empty vector' % me['name'], 'cxx_check', n)
                return base.extend(('index', z3.IntVal(0) if me['name'] == 'front' else v.size - 1))
        raise Unsupported('vcgen: lvalue %s' % k)

    def valid(self, st, cond, ms=2000):
        s_ = z3.Solver()
        s_.set('timeout', ms)
        for h in st.pc:
            s_.add(h)
        s_.add(z3.Not(cond))
        return s_.check() == z3.unsat

    def path_get(self, obj, path):
        for part in path.split('.'):
            obj = getattr(obj, part)
        return obj

    def callee_name(self, n):
        c = n['inner'][0]
        while c['kind'] in ('ImplicitCastExpr', 'ParenExpr'):
            c = self.only(c)
        if c['kind'] == 'DeclRefExpr':
            return c['referencedDecl'].get('name')
        if c['kind'] == 'MemberExpr':
            return c.get('name')
        return None

    def x_CXXOperatorCallExpr(self, n, st):
        name = self.callee_name(n)
        args = n['inner'][1:]
        if name == 'operator[]':
            return self.lv(n, st).get(st)
        if name == 'operator=':
            ref = self.lv(args[0], st)
            v = self.ev(args[1], st)
            ref.set(st, v.copy() if isinstance(v, (Obj, Vec)) else v)
            return v
        a0t = strip_ref(self.T(args[0]))
        if a0t[0] == 'ptr' and name in ('operator+', 'operator-', 'operator!=', 'operator==', 'operator<'):
            a, b = self.ev(args[0], st), self.ev(args[1], st)
            return self.iter_op(name, a, b, st, n)
        raise Unsupported('vcgen: operator %s' % name)

    # iterators into a vector are (vector lvalue, index)
    def iter_op(self, name, a, b, st, n):
        if name in ('operator+', 'operator-') and isinstance(a, tuple) and not isinstance(b, tuple):
            idx = a[1] + b if name == 'operator+' else a[1] - b
            return (a[0], idx)
        if isinstance(a, tuple) and isinstance(b, tuple):
            if name == 'operator==':
                return a[1] == b[1]
            if name == 'operator!=':
                return a[1] != b[1]
            if name == 'operator<':
                return a[1] < b[1]
            if name == 'operator-':
                return a[1] - b[1]
        raise Unsupported('vcgen: iterator %s' % name)

    def x_CXXMemberCallExpr(self, n, st):
        me = n['inner'][0]
        while me['kind'] in ('ImplicitCastExpr', 'ParenExpr'):
            me = self.only(me)
        obj = self.only(me)
        ot = strip_ref(self.T(obj))
        name = me['name']
        args = n['inner'][1:]
        if ot[0] == 'vec':
            ref = self.lv(obj, st)
            v = ref.get(st)
            if name == 'size':
                return v.size
            if name == 'empty':
                return v.size == 0
            if name in ('front', 'back'):
                self.oblige(st, v.size > 0, '%s() of a non-empty vector' % name, 'cxx_check', n)
                return v.at(z3.IntVal(0) if name == 'front' else v.size - 1)
            if name == 'at':
                idx = self.ev(args[0], st)
                a_, b_ = st.fork(), st
                # at() throws std::out_of_range instead of being undefined: modelled as an exceptional path
                raise Unsupported('vcgen: vector::at (use operator[] contracts)')
            if name == 'clear':
                nv = v.copy()
                nv.size = z3.IntVal(0)
                ref.set(st, nv)
                return None
            if name == 'pop_back':
                self.oblige(st, v.size > 0, 'pop_back() of a non-empty vector', 'cxx_check', n)
                nv = v.copy()
                nv.size = v.size - 1
                ref.set(st, nv)
                return None
            if name in ('push_back', 'emplace_back') and len(args) == 1:
                x = self.ev(args[0], st)
                nv = v.copy()
                if isinstance(x, Obj):
                    for p_ in nv.arrays:
                        nv.arrays[p_] = z3.Store(nv.arrays[p_], nv.off + nv.size, self.path_get(x, p_))
                else:
                    nv.arrays[''] = z3.Store(nv.arrays[''], nv.off + nv.size, x)
                nv.size = v.size + 1
                ref.set(st, nv)
                return None
            if name in ('begin', 'cbegin'):
                return (ref, z3.IntVal(0))
            if name in ('end', 'cend'):
                return (ref, v.size)
            if name == 'erase' and len(args) == 2:
                a, b = self.ev(args[0], st), self.ev(args[1], st)
                lo, hi = a[1], b[1]
                self.oblige(st, z3.And(0 <= lo, lo <= hi, hi <= v.size), 'vector::erase range lies within [begin, end] and is ordered', 'cxx_check', n)
                nv = v.copy()
                if self.valid(st, hi == v.size):
                    nv.size = lo                               # suffix erased: the window shrinks
                elif self.valid(st, lo == 0):
                    nv.off = v.off + hi                        # prefix erased: the window moves
                    nv.size = v.size - hi
                else:
                    j = self.fresh('j', z3.IntSort())
                    for p, arr in v.arrays.items():
                        na = self.fresh('erased' + ('.' + p if p else ''), arr.sort())
                        st.pc.append(z3.ForAll([j], na[j] == z3.If(j < lo, arr[v.off + j], arr[v.off + j + (hi - lo)])))
                        nv.arrays[p] = na
                    nv.off = z3.IntVal(0)
                    nv.size = v.size - (hi - lo)
                ref.set(st, nv)
                return (ref, lo)
        raise Unsupported('vcgen: member call %s on %r' % (name, ot))

    def x_CallExpr(self, n, st):
        c = n['inner'][0]
        while c['kind'] in ('ImplicitCastExpr', 'ParenExpr'):
            c = self.only(c)
        args = n['inner'][1:]
        rd = c['referencedDecl']
        if rd['id'] in self.P.fn_qname:
            return self.user_call(self.P.fn_qname[rd['id']], args, st, n)
        name = rd['name']
        if name == 'ceil':
            x = self.ev(args[0], st)
            k = self.fresh('ceil', z3.IntSort())
            st.pc.append(z3.And(z3.ToReal(k) - 1 < x, x <= z3.ToReal(k)))
            return z3.ToReal(k)
        if name == 'floor':
            x = self.ev(args[0], st)
            return z3.ToReal(z3.ToInt(x))
        if name in ('move', 'forward'):
            return self.ev(args[0], st)
        if name in ('max', 'min') and len(args) == 2:
            a, b = self.ev(args[0], st), self.ev(args[1], st)
            return z3.If(a < b, b, a) if name == 'max' else z3.If(b < a, b, a)
        if name in ('abs', 'fabs'):
            a = self.ev(args[0], st)
            return z3.If(a < 0, -a, a)
        if name == 'trunc':
            x = self.ev(args[0], st)
            return z3.ToReal(z3.If(x >= 0, z3.ToInt(x), -z3.ToInt(-x)))
        if name in ('round', 'lround', 'llround'):
            x = self.ev(args[0], st)     # halfway cases away from zero
            r = z3.If(x >= 0, z3.ToInt(x + z3.RealVal('1/2')), -z3.ToInt(-x + z3.RealVal('1/2')))
            return z3.ToReal(r) if name == 'round' else r
        if name == 'find_if':
            return self.find_if(args, st, n)
        raise Unsupported('vcgen: call to external %s' % name)

    def find_if(self, args, st, n):
        """std::find_if(v.begin(), v.end(), pred): the first index whose element satisfies the (real, lifted) predicate"""
        first, last, pred = args
        a, b = self.ev(first, st), self.ev(last, st)
        lam = None
        for x in astload.walk(pred):
            if x.get('kind') == 'LambdaExpr':
                lam = x
                break
        if lam is None:
            raise Unsupported('vcgen: find_if without lambda')
        ref = a[0]
        v = ref.get(st)
        op = [c for c in lam['inner'][0]['inner'] if c.get('kind') == 'CXXMethodDecl' and c.get('name') == 'operator()'][0]
        param = [c for c in op['inner'] if c.get('kind') == 'ParmVarDecl'][0]
        body = [c for c in op['inner'] if c.get('kind') == 'CompoundStmt'][0]
        rets = [x for x in body['inner'] if x.get('kind') == 'ReturnStmt']
        if len(body['inner']) != 1 or len(rets) != 1:
            raise Unsupported('vcgen: find_if predicate is not a single return')

        def pred_at(i):
            s2 = st.fork()
            s2.env[param['id']] = v.at(i)
            return self.ev(self.only(rets[0]), s2)
        k = self.fresh('found', z3.IntSort())
        j = self.fresh('j', z3.IntSort())
        st.pc.append(z3.And(a[1] <= k, k <= b[1]))
        st.pc.append(z3.ForAll([j], z3.Implies(z3.And(a[1] <= j, j < k), z3.Not(pred_at(j)))))
        st.pc.append(z3.Implies(k < b[1], pred_at(k)))
        self.assumptions.add('std::find_if returns the first position whose element satisfies the predicate (model over the real lifted predicate)')
        return (ref, k)

    def user_call(self, key, args, st, n):
        sp = self.specs.get(key)
        if sp is None:
            raise Unsupported('vcgen: no contract for callee %s' % key)
        fn = self.P.functions.get(key)
        params = [c for c in fn.get('inner', []) or [] if c.get('kind') == 'ParmVarDecl']
        env = {}
        for p, a in zip(params, args):
            env[p['name']] = self.ev(a, st)
        rt = self.ret_type(fn)
        ret = self.fresh_value(rt, 'ret_' + fn['name'])
        self.callees.append(key)
        ns = self.contract_ns(sp, env, ret)
        for nm, req in sp.requires.items():
            self.oblige(st, self.pyeval(req, ns), 'precondition of %s: %s' % (short(key), nm), 'callee_precondition', n)
        for c in self.type_constraints(ret, rt):
            st.pc.append(c)
        for nm, ens in sp.ensures.items():
            st.pc.append(self.pyeval(ens, ns))
        return ret

    def ret_type(self, fn):
        qt = fn['type'].get('desugaredQualType', fn['type']['qualType']).replace('(anonymous namespace)', 'ANON_NS_').replace('(anonymous)', 'ANON_NS_')
        depth = 0
        for i, ch in enumerate(qt):
            if ch == '<':
                depth += 1
            elif ch == '>':
                depth -= 1
            elif ch == '(' and depth == 0:
                return self.P.tp.parse(qt[:i].strip())
        raise Unsupported('vcgen: return type of %r' % qt)

    def locals_view(self, st):
        """final values of the function's locals by name (iterators as their index): ghost witnesses for contracts"""
        eng = self

        class Loc(Obj):
            def __getattr__(self_, k):
                try:
                    return self_.__dict__['f'][k]
                except KeyError:
                    return eng.fresh('unset_' + k, z3.IntSort())   # never assigned on this path: arbitrary
        o = Loc()
        for rid, nm in self.names.items():
            if rid in st.env:
                v = st.env[rid]
                setattr(o, self.unique_name(rid), v[1] if isinstance(v, tuple) else v)
        return o

    def unique_name(self, rid):
        """locals by name; a second local of the same name is <name>__2, ..."""
        nm = self.names[rid]
        same = [r for r, n_ in self.names.items() if n_ == nm]
        k = same.index(rid)
        return nm if k == 0 else '%s__%d' % (nm, k + 1)

    def contract_ns(self, sp, env, ret, old=None, loc=None):
        ns = dict(Z3NS)
        ns.update(env)
        ns['ret'] = ret
        ns['loc'] = loc
        if old:
            ns['old'] = old
        lazy = LazyNS(ns)
        lazy.lets = {nm[4:]: e for nm, e in sp.extra.items() if nm.startswith('let.')}
        lazy.engine = self
        return lazy

    def pyeval(self, text, ns):
        try:
            return eval(text, {'__builtins__': {'len': len, 'range': range, 'min': min, 'max': max}}, ns)
        except Exception as e:
            raise Unsupported('vcgen: cannot evaluate contract expression %r: %s' % (text, e))

    # ---- statements ---------------------------------------------------------------------------------------
    def run(self, stmts, st):
        """returns list of final states"""
        states = [st]
        for s in stmts:
            nxt = []
            for x in states:
                if x.status != 'normal':
                    nxt.append(x)
                else:
                    nxt += self.stmt(s, x)
            states = nxt
        return states

    def stmt(self, n, st):
        k = n['kind']
        if k == 'CompoundStmt':
            return self.run([c for c in n.get('inner', []) or []], st)
        if k == 'NullStmt':
            return [st]
        if k == 'DeclStmt':
            for c in n.get('inner', []) or []:
                if c['kind'] != 'VarDecl':
                    continue
                t = self.T(c)
                inits = [x for x in c.get('inner', []) or [] if 'kind' in x and not x['kind'].endswith('Attr')]
                self.names[c['id']] = c['name']
                if inits:
                    v = self.ev(inits[0], st)
                    if isinstance(v, (Obj, Vec)):
                        v = v.copy()
                    st.env[c['id']] = v
                else:
                    st.env[c['id']] = self.fresh_value(t, c['name'] + '_indeterminate')
                # cut.<local>.<n>: an intermediate assertion about a local, proved here and then used as a lemma
                sp = self.specs.get(self.key)
                un = self.unique_name(c['id'])
                if sp is not None:
                    for k_, e_ in sp.extra.items():
                        if k_.startswith('cut.' + un + '.'):
                            ns = self.contract_ns(sp, dict(getattr(self, 'inputs', {})), None, getattr(self, 'old_inputs', None), self.locals_view(st))
                            f = self.pyeval(e_, ns)
                            self.oblige(st, f, 'intermediate assertion %s' % k_[4:], 'cut', c)
                            st.pc.append(f)
            return [st]
        if k == 'ReturnStmt':
            inner = [x for x in n.get('inner', []) or [] if x]
            st.ret = self.ev(inner[0], st) if inner else None
            st.status = 'return'
            return [st]
        if k == 'IfStmt':
            inner = n['inner']
            c = self.ev(inner[0], st)
            a = st.fork()
            a.pc.append(c)
            b = st.fork()
            b.pc.append(z3.Not(c))
            out = self.stmt(inner[1], a)
            if len(inner) > 2 and inner[2]:
                out += self.stmt(inner[2], b)
            else:
                out.append(b)
            return out
        if k == 'CXXThrowExpr':
            th = n
            t = strip_ref(self.T(th['inner'][0]))
            st.status = 'throw'
            st.exc = t[1]
            return [st]
        if k == 'ExprWithCleanups':
            return self.stmt(self.only(n), st)
        if k.endswith('Expr') or k.endswith('Operator'):
            self.ev(n, st)
            return [st]
        raise Unsupported('vcgen: no rule for statement %s in %s' % (k, self.key))

    # ---- function-level VC generation ------------------------------------------------------------------------
    def verify_function(self):
        sp = self.specs[self.key]
        fn = self.P.functions[self.key.split('@')[0]]
        st = State()
        env = {}
        for c in fn.get('inner', []) or []:
            if c.get('kind') == 'ParmVarDecl':
                t = self.T(c)
                v = self.fresh_value(t, c['name'])
                st.env[c['id']] = v
                env[c['name']] = v
                st.pc += self.type_constraints(v, t)
                self.names[c['id']] = c['name']
        self.inputs = dict(env)
        self.old_inputs = None
        old = Obj({k: (v.copy() if isinstance(v, (Obj, Vec)) else v) for k, v in env.items()})
        self.old_inputs = old
        ns0 = self.contract_ns(sp, env, None, old)
        for nm, req in sp.requires.items():
            st.pc.append(self.pyeval(req, ns0))
        # reachability of the body under the preconditions (anti-vacuity)
        self.vcs.append(VC('vacuity: the preconditions are satisfiable', 'vacuity', st.pc, z3.BoolVal(False)))
        body = [c for c in fn.get('inner', []) or [] if c.get('kind') == 'CompoundStmt'][0]
        finals = self.run([body], st)
        rt = self.ret_type(fn)
        raises = sp.raises or []
        any_normal = False
        for f in finals:
            if f.status == 'throw':
                q = f.exc
                self.vcs.append(VC('raises: only %s may escape (here: %s)' % (' / '.join(raises) or 'nothing', q), 'raises', f.pc,
                                   z3.BoolVal(any(q == r or q.endswith('::' + r.split('::')[-1]) for r in raises))))
                ns = self.contract_ns(sp, dict(env), None, old)
                for nm, ens in sp.ensures_exc.items():
                    self.vcs.append(VC('ensures_exc %s' % nm, 'ensures_exc', f.pc, self.pyeval(ens, ns)))
                continue
            any_normal = True
            ns = self.contract_ns(sp, dict(env), f.ret, old, self.locals_view(f))
            for nm, ens in sp.ensures.items():
                self.vcs.append(VC('ensures %s' % nm, 'ensures', f.pc, self.pyeval(ens, ns)))
        if any_normal:
            pcs = [z3.And(*f.pc) if f.pc else z3.BoolVal(True) for f in finals if f.status != 'throw']
            self.vcs.append(VC('vacuity: normal return is reachable', 'vacuity', [z3.Or(*pcs)], z3.BoolVal(False)))
        if sp.ensures_exc or any(f.status == 'throw' for f in finals):
            pcs = [z3.And(*f.pc) if f.pc else z3.BoolVal(True) for f in finals if f.status == 'throw']
            if pcs and 'exc_reachable' in sp.options:
                self.vcs.append(VC('vacuity: exceptional return is reachable', 'vacuity', [z3.Or(*pcs)], z3.BoolVal(False)))
        only = sp.extra.get('only')
        if only:
            keep = [x.strip() for x in only.split(',')]
            self.vcs = [vc for vc in self.vcs if vc.cls == 'vacuity' or any(vc.name.startswith(k_) for k_ in keep)]
        return self.vcs


def prove_lemma(P, specs, name):
    """A lemma is a pure statement over contracts: instances of function contracts (their ensures, over fresh results)
    and explicit assumptions imply the goal.  [lemma X] vars / instance.<n> = <fn key> | a=expr, ... / assume.<n> / prove.<n>"""
    lem = specs['lemma:' + name]
    eng = Engine(P, specs, 'lemma:' + name)
    ns = dict(Z3NS)
    hyps = []
    for decl in lem.extra.get('vars', '').split():
        v, sort = decl.split(':')
        if sort == 'Fun':
            ns[v] = z3.Function(v, z3.IntSort(), z3.IntSort())
        elif sort == 'Arr':
            ns[v] = z3.Const(v, z3.ArraySort(z3.IntSort(), z3.IntSort()))
        elif sort == 'ArrFun':
            ns[v] = z3.Function(v, z3.IntSort(), z3.ArraySort(z3.IntSort(), z3.IntSort()))
        else:
            ns[v] = z3.Const(v, {'Int': z3.IntSort(), 'Real': z3.RealSort(), 'Bool': z3.BoolSort()}[sort])
    for k, val in lem.extra.items():
        if k.startswith('instance.'):
            fkey, _, argtxt = val.partition('|')
            fkey = fkey.strip()
            sp = specs[fkey]
            fn = P.functions[fkey]
            env = {}
            for part in split_top(argtxt):
                a, _, e = part.partition('=')
                env[a.strip()] = eng.pyeval(e.strip(), ns)
            params = [c for c in fn.get('inner', []) or [] if c.get('kind') == 'ParmVarDecl']
            for p_ in params:
                if p_['name'] not in env:
                    raise Unsupported('lemma %s: instance of %s lacks argument %s' % (name, fkey, p_['name']))
                hyps += eng.type_constraints(env[p_['name']], eng.T(p_))
            rt = eng.ret_type(fn)
            ret = eng.fresh_value(rt, k[9:])
            hyps += eng.type_constraints(ret, rt)
            old = Obj({k_: (v_.copy() if isinstance(v_, (Obj, Vec)) else v_) for k_, v_ in env.items()})
            cns = eng.contract_ns(sp, env, ret, old, eng.locals_view(State()))
            for nm, req in sp.requires.items():
                hyps.append(eng.pyeval(req, cns))      # the instance is a call within the contract's domain
            for nm, ens in sp.ensures.items():
                hyps.append(eng.pyeval(ens, cns))
            ns[k[9:]] = ret
        elif k.startswith('assume.'):
            hyps.append(eng.pyeval(val, ns))
    vcs = [VC('vacuity: lemma %s hypotheses are satisfiable' % name, 'vacuity', hyps, z3.BoolVal(False))]
    for k, val in lem.extra.items():
        if k.startswith('prove'):
            vcs.append(VC('lemma %s: %s' % (name, k[6:] or 'goal'), 'lemma', hyps, eng.pyeval(val, ns)))
    return vcs, eng


def split_top(s, sep=','):
    out, depth, cur = [], 0, ''
    for ch in s:
        if ch in '([{':
            depth += 1
        elif ch in ')]}':
            depth -= 1
        if ch == sep and depth == 0:
            out.append(cur.strip())
            cur = ''
        else:
            cur += ch
    if cur.strip():
        out.append(cur.strip())
    return out


Z3NS = {k: getattr(z3, k) for k in ('And', 'Or', 'Not', 'Implies', 'If', 'ToInt', 'ToReal', 'ForAll', 'Exists', 'IntVal', 'RealVal', 'BoolVal',
                                    'Int', 'Real', 'Bool', 'Ints', 'Reals', 'Select', 'Store', 'Sum', 'Distinct')}


def short(key):
    return key.replace('djinterop::engine::', '').replace('djinterop::', '').replace('(anonymous namespace)::', '')


def _has_free_var(e):
    seen = set()
    stack = [e]
    while stack:
        x = stack.pop()
        if x.get_id() in seen:
            continue
        seen.add(x.get_id())
        if z3.is_var(x):
            return True
        if z3.is_quantifier(x):
            continue
        stack.extend(x.children())
    return False


def _index_terms(exprs):
    """ground integer terms used as array indices anywhere in the formulas"""
    out, seen = {}, set()
    stack = list(exprs)
    while stack:
        x = stack.pop()
        if x.get_id() in seen:
            continue
        seen.add(x.get_id())
        if z3.is_quantifier(x):
            stack.append(x.body())
            continue
        if z3.is_app(x):
            if x.decl().kind() in (z3.Z3_OP_SELECT, z3.Z3_OP_STORE):
                i = x.arg(1)
                if not _has_free_var(i):
                    out[i.get_id()] = i
            stack.extend(x.children())
    return list(out.values())


def _neg_goal(goal):
    """hypotheses equivalent to (not goal), with the goal's universal quantifiers skolemised"""
    if z3.is_quantifier(goal) and goal.is_forall():
        consts = [z3.FreshConst(goal.var_sort(i), 'sk') for i in range(goal.num_vars())]
        return _neg_goal(z3.substitute_vars(goal.body(), *reversed(consts)))
    if z3.is_app(goal) and goal.decl().kind() == z3.Z3_OP_IMPLIES:
        return [goal.arg(0)] + _neg_goal(goal.arg(1))
    return [z3.Not(goal)]


def _instantiate(hyps, extra):
    """replace each universally quantified hypothesis by its instances at every index term in sight (and its
    neighbours).  Weakening hypotheses is sound: unsat of the weakened query still proves the obligation."""
    qs = [h for h in hyps if z3.is_quantifier(h) and h.is_forall() and h.num_vars() in (1, 2) and all(h.var_sort(i) == z3.IntSort() for i in range(h.num_vars()))]
    ground = [h for h in hyps if not z3.is_quantifier(h)]
    if any(z3.is_quantifier(h) and h not in qs for h in hyps):
        return None
    terms = _index_terms(ground + extra + qs)
    cands = {}
    for t in terms:
        for u in (t, t - 1, t + 1):
            u = z3.simplify(u)
            cands[u.get_id()] = u
    inst = []
    base = {t.get_id(): t for t in terms}
    for q in qs:
        if q.num_vars() == 1:
            for u in cands.values():
                inst.append(z3.substitute_vars(q.body(), u))
        else:
            for u in base.values():
                for w in base.values():
                    inst.append(z3.substitute_vars(q.body(), u, w))
    return ground + inst


def solve(hyps, goal, timeout_ms):
    """valid iff hyps /\ not goal is unsat.  First a quantifier-free attempt (manual instantiation), then the full query."""
    neg = _neg_goal(goal)
    t0 = time.time()
    qf = _instantiate(list(hyps), neg)
    if qf is not None and not any(z3.is_quantifier(x) for x in neg):
        s = z3.Solver()
        s.set('timeout', max(5000, timeout_ms // 3))
        for h in qf + neg:
            s.add(h)
        r = s.check()
        if r == z3.unsat:
            return 'SUCCESS', None, time.time() - t0, 'qf-instantiated'
    # z3's nonlinear arithmetic is sensitive to its random seed: a query that takes 1 s with one seed can run for
    # minutes with another.  Several short attempts with different seeds before the long one.
    if qf is not None and not any(z3.is_quantifier(x) for x in neg):
        for seed in (1, 7, 23, 101):
            s = z3.Solver()
            s.set('timeout', max(3000, timeout_ms // 6))
            s.set('random_seed', seed)
            try:
                s.set('smt.random_seed', seed)
            except Exception:
                pass
            for h in qf + neg:
                s.add(h)
            if s.check() == z3.unsat:
                return 'SUCCESS', None, time.time() - t0, 'qf-instantiated(seed %d)' % seed
    s = z3.Solver()
    s.set('timeout', timeout_ms)
    for h in hyps:
        s.add(h)
    s.add(z3.Not(goal))
    r = s.check()
    if r == z3.unsat:
        return 'SUCCESS', None, time.time() - t0, 'full'
    if r == z3.sat:
        try:
            return 'FAILURE', s.model(), time.time() - t0, 'full'
        except Exception:
            return 'FAILURE', None, time.time() - t0, 'full'
    return 'UNKNOWN', None, time.time() - t0, s.reason_unknown()


def discharge(vcs, timeout_ms=30000):
    for vc in vcs:
        vc.status, vc.model, vc.seconds, vc.how = solve(vc.hyps, vc.goal, timeout_ms)
    return vcs
