"""Which functions, contracts and translation units decide which property."""
E = 'src/djinterop/engine/'
EDU = E + 'encode_decode_utils.cpp'
V2 = [E + 'v2/beat_data_blob.cpp', E + 'v2/quick_cues_blob.cpp', E + 'v2/loops_blob.cpp',
      E + 'v2/overview_waveform_data_blob.cpp', E + 'v2/track_data_blob.cpp']
V1 = [E + 'v1/performance_data_format.cpp']
ANON = '(anonymous namespace)::'
P_ = 'djinterop::engine::'

DEC_PRIMS = [P_ + n for n in ('decode_uint8', 'decode_int32_le', 'decode_int32_be', 'decode_int64_le', 'decode_int64_be',
                              'decode_double_le', 'decode_double_be')]
ENC_PRIMS = [P_ + n for n in ('encode_uint8', 'encode_int32_le', 'encode_int32_be', 'encode_int64_le', 'encode_int64_be',
                              'encode_double_le', 'encode_double_be')]
V2_DEC = [P_ + 'v2::' + ANON + 'decode_beatgrid'] + [P_ + 'v2::%s::from_blob' % b for b in
          ('beat_data_blob', 'quick_cues_blob', 'loops_blob', 'overview_waveform_data_blob', 'track_data_blob')]
V1_HELP = [P_ + 'v1::' + ANON + 'prohibit<std::optional<std::decay_t<double&>>(constint&,double&)>',
           P_ + 'v1::' + ANON + 'prohibit<std::optional<std::decay_t<int&>>(constint&,int&)>',
           'djinterop::util::optional_static_cast<std::optional<musical_key>(conststd::optional<int>&)>']
V1_DEC = [P_ + 'v1::' + ANON + 'decode_beatgrid'] + [P_ + 'v1::%s::decode' % b for b in
          ('beat_data', 'high_res_waveform_data', 'loops_data', 'overview_waveform_data', 'quick_cues_data', 'track_data')]

ZLIB_ASSUME = [
    'zlib inflate/deflate meet the contract transcribed from zlib.h in /verif/models/verif_zlib.h (read only next_in[0,avail_in), write only next_out[0,avail_out), consistent counters, Z_OK only on progress, Z_BUF_ERROR only without progress, every finite input yields finite output); zlib itself is not verified',
    'decompressed payloads are at most 2^31-1 bytes (the Engine length prefix is a signed 32-bit count; larger expansions are treated as allocation failure)',
    'blobs are at most 2^31-1 bytes (SQLite hard limit)',
]

PROPS = {
    'C02': {
        'tus': [EDU] + V2 + V1,
        'functions': [P_ + 'zlib_compress'],
        'level': 'proof',
        'assumptions': [],
        'explanation': 'under construction',
    },
    'C20': {
        'tus': [E + 'engine.cpp'],
        'functions': [P_ + 'normalize_beatgrid', P_ + 'normalize_beatgrid@normal_form_is_fixed_point', P_ + 'normalize_beatgrid@any_start_index'],
        'level': 'proof',
        'assumptions': [
            'double is modelled as the reals: "idempotent up to floating-point rounding" is proved as exact idempotence over the reals; the bracket sc <= last < sc + one beat can be off by an ulp in IEEE arithmetic',
            'domain of the proof: strictly increasing grid of at most 2^20 markers, beat indices in [-4, 2^20], |sample offsets| <= 2^39, 0 <= sample_count <= 2^39, every segment at least 1024 samples per beat (outside it the int32 beat arithmetic of the code can overflow - not claimed)',
            'grids with a beat index below -4 are outside the proved domain: see the KNOWN-FINDING exhibited by the variant contract @any_start_index',
            'idempotence = (every output is in normal form) + (a grid in normal form is returned unchanged); the step from pairwise-adjacent order of the output to the all-pairs order required by the second contract is transitivity (an induction that is not mechanised)',
            'std::find_if / vector::erase are models: first position satisfying the real (lifted) predicate; erase of a prefix/suffix moves a window over the same arrays',
            'trusted: the vcgen symbolic executor (/verif/vlib/vcgen.py), its manual quantifier instantiation (only ever weakens hypotheses) and z3',
        ],
        'explanation': 'normalize_beatgrid is symbolically executed from the clang AST (all 2^k paths through the trimming and the two arithmetic blocks); the postconditions transcribe the property: first index -4, last marker in [end, end + one beat), interior markers are input markers verbatim, first and last segment keep their samples-per-beat (witnessed by the value the code computed), only invalid_argument escapes, every vector index / iterator range / int32 conversion is safe; idempotence via a second contract on normal-form inputs.',
    },
    'C19': {
        'tus': [E + 'engine.cpp'],
        'functions': [P_ + 'util::waveform_quantisation_number', P_ + 'util::calculate_high_resolution_waveform_extents',
                      P_ + 'util::calculate_overview_waveform_extents', P_ + 'calculate_high_resolution_waveform_extents',
                      P_ + 'calculate_overview_waveform_extents',
                      'lemma:C19.mono_high_resolution', 'lemma:C19.mono_overview', 'lemma:C19.size_is_ceiling'],
        'level': 'proof',
        'assumptions': [
            'integers are mathematical with a generated range obligation for every UB-capable operation; unsigned arithmetic is reduced mod 2^64 explicitly',
            'double is modelled as the reals: the sample rate is any real in [0, 2^31]; int -> double is the exact embedding (exact in IEEE-754 below 2^53, so the overview span is exact for sample counts below 2^53 and correctly rounded above)',
            'domain of the proof: sample_count <= 2^62 and 0 <= sample_rate <= 2^31 (the property\'s own domain)',
            'trusted: the vcgen symbolic executor in /verif/vlib/vcgen.py (own code) and z3',
        ],
        'explanation': 'The three arithmetic functions and the two public wrappers are symbolically executed from the clang AST; each postcondition (cover, minimality, emptiness condition, 1024 entries spanning the count rounded down to the quantisation number) and each generated no-UB side condition is a z3 validity query over the integers/reals for all inputs; monotonicity is a lemma over the contracts.',
    },
    'C13': {
        'tus': [E + 'schema/schema.cpp', E + 'engine_library_dir_utils.cpp'],
        'functions': [P_ + 'schema::detect_schema', P_ + 'detect_is_database2'],
        'level': 'proof',
        'assumptions': [
            'detect_schema is checked as a slice starting at `switch (version.maj)`: the two SQL statements above it (existence of the Information table; SELECT of the version triple) are dropped and the triple becomes a parameter - that the triple is read correctly is assumed (it is SQL)',
            'get_column_type (PRAGMA table_info through sqlite_modern_cpp) is external: assumed to return any optional string or throw',
            'djinterop::util::path_exists (stat) is external: assumed to answer consistently per path; path identity is tracked by a ghost tag (which literal was appended), string contents are abstract',
            'load_database / engine_storage dispatch on the detected value is not covered (constructs SQL-backed objects)',
            'the decision table is transcribed from engine_schema.hpp (19 enumerators incl. 3.0.0, which detect_schema accepts and the reference tests load)',
        ],
        'explanation': 'Loop-free decision code checked on its full input domain: all of int^3 for the version triple x every column-type answer, and all 2^3 presence combinations of directory / m.db / Database2/m.db; the postcondition is the documented decision table, so any misidentified triple, missing rejection or wrong layout row fails a named ensures.',
    },
    'C05': {
        'tus': [EDU] + V2 + V1,
        'functions': DEC_PRIMS + [P_ + 'decode_extra', P_ + 'zlib_uncompress'] + V2_DEC + V1_HELP + V1_DEC,
        'level': 'proof',
        'assumptions': ZLIB_ASSUME + [
            'termination is proved as: every loop has a strictly decreasing variant (cbmc decreases clauses) and every callee terminates by its own contract; "promptly" is not quantified',
            'exception objects are abstracted to their dynamic type; std::bad_alloc below max_size is not modelled',
            'memcpy(d, s, 0) with a null pointer (empty vector) is not reported (defined by every libc and by C2y)',
        ],
        'explanation': 'Every decoder, the decompression routine and every helper they call is checked against its contract by cbmc: all reads in bounds for every buffer up to 2^31-1 bytes and every embedded count, no signed overflow, only std::exception-derived exception kinds escape, every loop closed by an inductive invariant and a decreasing variant (no unwinding bound).',
    },
}
