"""Which functions, contracts and translation units decide which property."""
E = 'src/djinterop/engine/'
EDU = E + 'encode_decode_utils.cpp'
V2 = [E + 'v2/beat_data_blob.cpp', E + 'v2/quick_cues_blob.cpp', E + 'v2/loops_blob.cpp',
      E + 'v2/overview_waveform_data_blob.cpp', E + 'v2/track_data_blob.cpp']
V1 = [E + 'v1/performance_data_format.cpp']
ANON = '(anonymous namespace)::'
P_ = 'djinterop::engine::'

DEC_PRIMS = [P_ + n for n in ('decode_uint8', 'decode_int32_le', 'decode_int32_be', 'decode_int64_le', 'decode_int64_be',
                              'decode_double_le', 'decode_double_be')]
ENC_PRIMS = [P_ + n for n in ('encode_uint8', 'encode_int32_le', 'encode_int32_be', 'encode_int64_le', 'encode_int64_be',
                              'encode_double_le', 'encode_double_be')]
V2_DEC = [P_ + 'v2::' + ANON + 'decode_beatgrid'] + [P_ + 'v2::%s::from_blob' % b for b in
          ('beat_data_blob', 'quick_cues_blob', 'loops_blob', 'overview_waveform_data_blob', 'track_data_blob')]
V1_HELP = [P_ + 'v1::' + ANON + 'prohibit<std::optional<std::decay_t<double&>>(constint&,double&)>',
           P_ + 'v1::' + ANON + 'prohibit<std::optional<std::decay_t<int&>>(constint&,int&)>',
           'djinterop::util::optional_static_cast<std::optional<musical_key>(conststd::optional<int>&)>']
V1_DEC = [P_ + 'v1::' + ANON + 'decode_beatgrid'] + [P_ + 'v1::%s::decode' % b for b in
          ('beat_data', 'high_res_waveform_data', 'loops_data', 'overview_waveform_data', 'quick_cues_data', 'track_data')]

ENC_V2 = [P_ + 'v2::' + ANON + 'encode_beatgrid', P_ + 'v2::' + ANON + 'encode_beatgrid#loop0',
          P_ + 'v2::beat_data_blob::to_blob', P_ + 'v2::track_data_blob::to_blob',
          P_ + 'v2::overview_waveform_data_blob::to_blob', P_ + 'v2::overview_waveform_data_blob::to_blob#loop0',
          P_ + 'v2::quick_cues_blob::to_blob', P_ + 'v2::quick_cues_blob::to_blob#loop0', P_ + 'v2::quick_cues_blob::to_blob#loop1', P_ + 'v2::quick_cues_blob::to_blob#loop2',
          P_ + 'v2::loops_blob::to_blob', P_ + 'v2::loops_blob::to_blob#loop0', P_ + 'v2::loops_blob::to_blob#loop1', P_ + 'v2::loops_blob::to_blob#loop2']
DEC_V2_LAYOUT = [P_ + 'v2::' + ANON + 'decode_beatgrid', P_ + 'v2::' + ANON + 'decode_beatgrid#loop0', P_ + 'v2::beat_data_blob::from_blob',
                 P_ + 'v2::track_data_blob::from_blob@layout',
                 P_ + 'v2::overview_waveform_data_blob::from_blob@layout', P_ + 'v2::overview_waveform_data_blob::from_blob#loop0',
                 P_ + 'v2::quick_cues_blob::from_blob@layout', P_ + 'v2::quick_cues_blob::from_blob#loop0',
                 P_ + 'v2::loops_blob::from_blob@layout', P_ + 'v2::loops_blob::from_blob#loop0']
ENC_V1 = [P_ + 'v1::' + ANON + 'encode_beatgrid', P_ + 'v1::' + ANON + 'encode_beatgrid#loop0', P_ + 'v1::beat_data::encode', P_ + 'v1::track_data::encode',
          P_ + 'v1::high_res_waveform_data::encode', P_ + 'v1::high_res_waveform_data::encode#loop0',
          P_ + 'v1::overview_waveform_data::encode', P_ + 'v1::overview_waveform_data::encode#loop0',
          P_ + 'v1::loops_data::encode', P_ + 'v1::loops_data::encode#loop0', P_ + 'v1::loops_data::encode#loop1',
          P_ + 'v1::quick_cues_data::encode', P_ + 'v1::quick_cues_data::encode#loop0', P_ + 'v1::quick_cues_data::encode#loop1']
DEC_V1_LAYOUT = [P_ + 'v1::' + ANON + 'decode_beatgrid@layout', P_ + 'v1::' + ANON + 'decode_beatgrid#loop0', P_ + 'v1::beat_data::decode@layout',
                 P_ + 'v1::track_data::decode@layout', P_ + 'v1::high_res_waveform_data::decode@layout', P_ + 'v1::high_res_waveform_data::decode#loop0',
                 P_ + 'v1::overview_waveform_data::decode@layout', P_ + 'v1::overview_waveform_data::decode#loop0',
                 P_ + 'v1::loops_data::decode@layout', P_ + 'v1::loops_data::decode#loop0',
                 P_ + 'v1::quick_cues_data::decode@layout', P_ + 'v1::quick_cues_data::decode#loop0'] + V1_HELP
SEQ = ['lemma:Seq.fixed_size_records', 'lemma:Seq.variable_size_records', 'lemma:Seq.sum', 'lemma:Seq.concatenation', 'lemma:Seq.scan']
REJECTION = [P_ + 'v2::quick_cues_blob::to_blob#loop1', P_ + 'v2::loops_blob::to_blob#loop1', P_ + 'v1::loops_data::encode#loop1',
             P_ + 'v1::quick_cues_data::encode#loop1', P_ + 'v1::quick_cues_data::encode', P_ + 'v1::loops_data::decode#loop0', P_ + 'v1::quick_cues_data::decode#loop0']
FORMAT_ASSUME = [
    'the format description (models/verif_format.h and the layout contracts) was written from the Engine performance-data layout; that it is what Engine players read is not checkable offline',
    'loops are replaced by summaries in the function-level layout proofs; the per-iteration facts are proved on the mechanically extracted loop bodies (<fn>#loop<k>) and lifted by the sequencing lemmas Seq.* (inductions discharged by z3); that a C++ for / range-for executes its body once per index in increasing order is the language semantics and is assumed',
    'structure mode: a caller is checked for WHICH codec it applies to WHICH value at WHICH position (ghost call log); the bytes each codec writes/reads there are that codec\'s own contract (bit-level for the 14 fixed-width codecs)',
    'string::assign, vector copy and memcpy copy every element (stated for one arbitrary ghost index); deflate/inflate are assumed inverse',
]
ZLIB_ASSUME = [
    'zlib inflate/deflate meet the contract transcribed from zlib.h in /verif/models/verif_zlib.h (read only next_in[0,avail_in), write only next_out[0,avail_out), consistent counters, Z_OK only on progress, Z_BUF_ERROR only without progress, every finite input yields finite output); zlib itself is not verified',
    'decompressed payloads are at most 2^31-1 bytes (the Engine length prefix is a signed 32-bit count; larger expansions are treated as allocation failure)',
    'blobs are at most 2^31-1 bytes (SQLite hard limit)',
]

SLOT_API = [P_ + 'v2::track_impl::' + f for f in ('hot_cue_at', 'set_hot_cue_at', 'loop_at', 'set_loop_at')] + \
           [P_ + 'v1::engine_track_impl::' + f for f in ('hot_cue_at', 'set_hot_cue_at', 'loop_at', 'set_loop_at')]

def _rest(keys, already):
    return [k for k in keys if k not in already]


CONV_V2 = [P_ + 'v2::convert::' + f for f in ('write::hot_cues', 'write::loops', 'write::beatgrid_markers', 'write::beatgrid', 'write::waveform', 'write::duration',
                                                'read::hot_cues', 'read::loops', 'read::beatgrid_markers', 'read::waveform', 'read::duration')]

# the schema-2.x single-field setters that are a read-modify-write of a performance-data blob (C04, second sentence): their C06
# contracts (over the ghost column store) say which fields of the decoded blob change and that everything else, the trailing
# extra_data included byte by byte, is written back as read
BLOB_SETTERS_V2 = [P_ + 'v2::track_impl::' + f for f in ('set_key', 'set_average_loudness', 'set_sample_rate', 'set_sample_count', 'set_main_cue', 'set_hot_cues',
                                                           'set_hot_cue_at@c06', 'set_loops', 'set_loop_at@c06', 'set_beatgrid')]

def _c06_functions():
    import os, re
    f = os.path.join(os.path.dirname(os.path.dirname(os.path.abspath(__file__))), 'contracts', 'track_v2_c06.spec')
    return [l.strip()[4:-1] for l in open(f) if l.startswith('[fn djinterop::engine::v2::track_impl::')] + \
           ['harness:' + l.strip()[9:-1] for l in open(f) if l.startswith('[harness ')]


def _c06v1_functions():
    import os
    f = os.path.join(os.path.dirname(os.path.dirname(os.path.abspath(__file__))), 'contracts', 'track_v1_c06.spec')
    return [l.strip()[4:-1] for l in open(f) if l.startswith('[fn djinterop::engine::v1::engine_track_impl::') and '_data@c06v1]' not in l]


PROPS = {
    'C06': {
        'tus': [E + 'v2/track_impl.cpp', E + 'v1/engine_track_impl.cpp'],
        'functions': _c06_functions() + CONV_V2 + _c06v1_functions(),
        'level': 'proof',
        'timeout': {'quick': 900, 'thorough': 3600},
        'assumptions': [
            'PARTIAL: decided per operation for schema 2.x (all accessors) and for the performance-data-backed accessors of schema 1.x: every public getter and setter of v2::track_impl (26 fields incl. the per-slot cue / loop accessors) against a GHOST COLUMN STORE that stands for the SQL table layer',
            'ASSUMED, not decided (it is SQL: C18 under not_applicable): each track_table::get_X / set_X pair reads / overwrites exactly one column of the addressed row and nothing else, on every 2.x schema version, through the blob codecs (C03/C04); other tracks are other rows and are not touched by a single-row statement',
            'the single step is mechanised as 26 lemma harnesses over the contracts (C06.step.set_<field>: from an arbitrary stored state, all 23 getters before, the setter, all 23 getters after: the own getter returns the normalised argument, every other getter returns what it returned before); "after ANY sequence of setter calls" is the repetition of that step (each step starts from an arbitrary state), which is not a separate obligation',
            'per-slot setters: the step lemma looks at the cue / loop list getter at the index (ghost element = index); that every OTHER slot is kept is the postcondition other_slots_kept of set_hot_cue_at / set_loop_at themselves (second ghost index), not repeated in the step lemma',
            'a failed (throwing) setter call is not examined here (that is C14)',
            'getter / snapshot agreement: harness C06.getters_agree_with_snapshot - over the getter contracts and the C01 contract of track_impl::snapshot, with the fetched row taken to consist of the same columns (table-layer assumption again)',
            'schema 1.x, PARTIAL: the 16 accessors of v1::engine_track_impl that are backed by decoded performance-data values only (hot_cues / set_hot_cues, hot_cue_at / set_hot_cue_at, main_cue / set_main_cue, loops / set_loops, loop_at / set_loop_at, average_loudness / set_average_loudness, beatgrid / set_beatgrid, sample_rate(), sample_count()) are proved the same way over a ghost performance-data store (get_<X>_data / set_<X>_data replaced by one ghost value per column; contracts/track_v1_c06.spec, generated by tools/gen_c06v1_spec.py): own field stored under the stated normalisation (lists padded to eight slots, zero loudness / zero main cue read as absent), every other slot, the main cue, the other track-data / beat-data fields kept; getters write nothing. No step lemma harnesses for 1.x (the postconditions are per operation)',
            'NOT covered on schema 1.x: the accessors that go through storage_->get/set_track_column and get/set_meta_data (SQL keyed by column-name strings and metadata type ids: text fields, numbers, rating, bpm, duration, last_played_at, relative_path) and the setters that mix both (set_key, set_sample_rate, set_sample_count, set_waveform); getter / snapshot agreement on 1.x',
            'strings are compared by provenance token, vectors through one arbitrary element (ghost indices), as for C01; the waveform setter is specified up to what a round trip needs (length, and every entry for an overview-length waveform)',
            'domain: stored length within +-2^63/1000 s for duration(); stored sample rate in [0, 2^31] for set_waveform',
        ],
        'explanation': 'For each public field: the setter leaves verif_written == exactly its column set, stores the stated conversion of its argument, and keeps every other field of a blob it shares (track data: rate / count / key / loudness; beat data: rate / count / grids; quick cues: main cue / slots; per-slot setters: every other slot); the getter writes nothing and returns the stated conversion of its column. Proved on the real accessor bodies with the table accessors replaced by the ghost column store.',
    },
    'C01': {
        'tus': [E + 'v2/track_impl.cpp'],
        'functions': CONV_V2 + [P_ + 'v2::' + ANON + 'snapshot_to_row', P_ + 'v2::track_impl::snapshot', 'harness:C01.v2_round_trip', 'lemma:C01.whole_seconds', 'lemma:C01.quantum'],
        'level': 'proof',
        'timeout': {'quick': 900, 'thorough': 3600},
        'assumptions': [
            'PARTIAL: decided for the schema-2.x C++ conversion layer only: snapshot_to_row (snapshot -> track row, used by create_track and update), track_impl::snapshot from the fetched row on (row -> snapshot) and every convert::read / convert::write helper they call',
            'ASSUMED, not decided (it is SQL: see C18 under not_applicable): track_table::add / update / get store the row they are given and return it unchanged on every 2.x schema version, including through the blob codecs (whose round trip on values this layer produces is C03) and the timestamp columns (whole-second resolution of last_played_at is applied there, not in this layer)',
            'NOT covered: schema 1.x (engine_track_impl create_track / update / snapshot go through metadata tables and string-typed columns); on 1.x the BPM read back is derived from the beat grid or truncated to an integer, which this check does not examine',
            'strings are compared by provenance: every input string carries an arbitrary token that the string model keeps on copy (copy also copies every byte) and that nothing else produces; "same size and token" means "a copy of that input string"',
            'vectors are abstract: facts are stated for one arbitrary element (ghost index verif_g2), element strings are valid for that element only; allocation failure is not modelled',
            'domain: sample rate absent or in [0, 2^31] (the domain of the waveform extents contract, C19); stored length within +-2^63/1000 seconds when read; doubles compared by bit pattern (so NaNs and signed zeros are covered)',
            'util::get_filename / get_file_extension are external stubs (any string / optional string); the fixed point assumes they are deterministic in the path',
            'the waveform is specified up to what the round trip needs: its stored length (0 or 1024) and, for a waveform that already has 1024 entries, every entry; which entry of a longer waveform the resampling picks is not specified',
            'the 64-bit division in convert::write::duration is related to the specification by cbmc --z3 (one property group); SAT cannot relate two division circuits in time',
        ],
        'explanation': 'Every convert::read / convert::write helper with a loop is proved against an element-wise specification (loop invariants for one arbitrary element); snapshot_to_row and the row-to-snapshot part of track_impl::snapshot are proved field by field against explicit expressions of their inputs (all 25 snapshot fields, wiring included); the round trip (each representable field exactly as given, lists padded to eight slots, whole-second durations, ratings clamped, sentinels read as absent) and the fixed point of a second write/read are a lemma harness over those two contracts.',
    },
    'C15': {
        'tus': [EDU] + V2 + V1 + [E + 'v2/track_impl.cpp', E + 'v1/engine_track_impl.cpp', E + 'engine.cpp'],
        'functions': SLOT_API + [P_ + 'v2::convert::write::waveform', P_ + 'v1::' + ANON + 'to_length_fields', P_ + 'v1::engine_track_impl::set_sample_count', P_ + 'v1::engine_track_impl::set_sample_rate',
                      P_ + 'util::waveform_quantisation_number', P_ + 'util::calculate_high_resolution_waveform_extents', P_ + 'util::calculate_overview_waveform_extents'] + _rest(CONV_V2, [P_ + 'v2::convert::write::waveform']) + [P_ + 'v2::track_impl::' + f for f in ('set_hot_cues', 'set_loops', 'set_beatgrid', 'set_waveform')] + ENC_V1 + [k for k in ENC_V2 if '#loop' in k] + [P_ + 'v2::loops_blob::to_blob', P_ + 'v2::overview_waveform_data_blob::to_blob', P_ + 'v2::track_data_blob::to_blob'] + SEQ[:3],
        'level': 'proof',
        'assumptions': FORMAT_ASSUME[1:3] + [
            'PARTIAL: only argument-value undefined behaviour in the non-SQL code is decided: (a) the per-slot cue/loop accessors of both schema generations for every int index over any stored slot vector, (b) convert::write::waveform for every combination of absent/present sample count and rate and every waveform length, (c) the buffer sizing of every blob encoder for any slot count and any label length (payload exactly filled, every write inside the allocation), (d) the schema-2.x list converters convert::read / convert::write (hot cues, loops, beat-grid markers, waveform, duration) and the list setters set_hot_cues / set_loops / set_beatgrid / set_waveform for lists of any length (every vector index and output iterator in range, over-long lists rejected with the stated exception)',
            'NOT covered: validity of handles to removed rows, anything whose safety depends on database state, termination/safety of the SQL layer, crate operations, string arguments reaching SQL',
            'the table / storage accessors (track_table::get_*/set_*, engine_track_impl::get_*_data/set_*_data, track_impl::id, sqlite_transaction) are EXTERNAL contract stubs: they return any well-formed blob (any slot count) or throw; the RAII transaction object is dropped by the translator; `this` of the SQL-backed classes is an opaque handle',
        ],
        'explanation': 'Every vector index in the slot accessors is proved in range (or out_of_range is raised) for all 2^32 int indices against any slot vector the storage layer may return; no empty optional is dereferenced in the waveform conversion and its entry index w.size()*(2i+1)/2048 is in range for all i < 1024; each encoder allocates exactly the bytes it writes for any slot count / label length (labels over 255 bytes and more than 8 schema-1.x hot cues are rejected before any write).',
    },
    'C02': {
        'tus': [EDU] + V2 + V1,
        'functions': DEC_PRIMS + ENC_PRIMS + [P_ + 'encode_extra', P_ + 'decode_extra', P_ + 'zlib_compress', P_ + 'zlib_uncompress'] + ENC_V2 + DEC_V2_LAYOUT + ENC_V1 + DEC_V1_LAYOUT + SEQ,
        'level': 'proof',
        'assumptions': ZLIB_ASSUME + FORMAT_ASSUME,
        'explanation': 'The independent decoder is the format description in /verif/models/verif_format.h and in the layout contracts: per blob kind, which codec (width, endianness) is applied to which logical field at which position, with positions chained from the start of the payload, exact fill, the 4-byte big-endian length prefix and one complete zlib stream (loops blobs uncompressed). Every encoder and every decoder of both schema generations is proved against it (cbmc): the fixed-width codecs bit-precisely on full domains, every loop through a per-iteration contract on its mechanically extracted body plus a summary, and the lifting of per-iteration facts to whole buffers by the sequencing lemmas (z3 inductions).  Because encoder and decoder are each stated against the same description, a joint drift of both fails two named obligations.',
    },
    'C03': {
        'tus': [EDU] + V2 + V1,
        'functions': ['harness:roundtrip.int32', 'harness:roundtrip.int64', 'harness:roundtrip.double', 'harness:roundtrip.uint8'] + REJECTION + [P_ + 'v2::track_data_blob::from_blob@accepts_own_encoding', P_ + 'v2::overview_waveform_data_blob::from_blob@accepts_own_encoding'] + _rest(ENC_V2 + DEC_V2_LAYOUT + ENC_V1 + DEC_V1_LAYOUT + [P_ + 'encode_extra', P_ + 'decode_extra'] + SEQ, REJECTION),
        'level': 'proof',
        'assumptions': FORMAT_ASSUME + ['C03 is decided on top of the layout contracts (the same contracts as C02, re-checked by this command): encoder and decoder of a blob kind apply inverse codecs to the same fields at the same positions, so decode(encode(v)) == v follows field by field from the bit-level inverse lemmas proved here; that composition step is an argument over the contracts, not a separately mechanised lemma',
                        'domain: label lengths, slot counts and vector sizes unbounded (no unwinding); the total payload is at most 2^31-1 bytes'],
        'explanation': 'Proved here: (1) every fixed-width decoder inverts its encoder and vice versa on the real bodies, bit-exactly for all 2^64 values (doubles by bit pattern); (2) the unencodable values are rejected: a cue/loop label over 255 bytes or (1.x) an empty label raises instead of being written, more than 8 hot cues are rejected in 1.x, a 1.x quick-cue blob is only produced for exactly 8 slots; (3) the reserved empty-slot encodings (offset -1) are the only values read back as absent.  One recorded finding (extra_data on track-data / overview blobs is written but cannot be read back) is exhibited and reported as KNOWN-FINDING.',
    },
    'C04': {
        'tus': [EDU] + V2 + [E + 'v2/track_impl.cpp'],
        'functions': BLOB_SETTERS_V2 + [P_ + 'encode_extra', P_ + 'decode_extra'] + [k for k in DEC_V2_LAYOUT] + [P_ + 'v2::beat_data_blob::from_blob', P_ + 'v2::' + ANON + 'decode_beatgrid#loop0', P_ + 'v2::' + ANON + 'decode_beatgrid', P_ + 'v2::quick_cues_blob::to_blob', P_ + 'v2::loops_blob::to_blob#loop1'] + _rest(ENC_V2 + SEQ, [P_ + 'v2::quick_cues_blob::to_blob', P_ + 'v2::loops_blob::to_blob#loop1']),
        'level': 'proof',
        'assumptions': FORMAT_ASSUME + ['setter level (second sentence of the property): the ten blob-backed single-field setters of v2::track_impl are proved (their C06 contracts, re-checked by this command) to write back the decoded blob they fetched with only their own field(s) changed - every other field, every other cue / loop slot and every trailing extra_data byte (ghost index) as read. ASSUMED: the table accessors get_<blob> / set_<blob> return / store the decoded value of the column (ghost column store; SQL, C18) through from_blob / to_blob, whose byte preservation is the blob-level part of this check. set_waveform replaces the overview blob as a whole: an accepted overview payload has no trailing bytes (its decoder accepts only the exact length), so nothing can be dropped; track_impl::update (whole-snapshot write) rebuilds all blobs and is not a single-field change',
                        'the encoder side of the re-encoding argument (each field written back by the inverse codec at the same position, payload exactly filled) is the set of schema-2.x to_blob layout contracts (the same contracts as C02, re-checked by this command)'],
        'explanation': 'For every payload a schema-2.x decoder accepts: every field is kept verbatim in the decoded value (asserted field by field against the value the codec read at its position), unknown fields and flag bytes included, every trailing byte is captured as extra_data and written back verbatim, counts are taken from the payload, and the only normalisation is the boolean main-cue-adjusted byte (any non-zero reads as true, true is written as 1).',
    },
    'C20': {
        'tus': [E + 'engine.cpp'],
        'functions': [P_ + 'normalize_beatgrid', P_ + 'normalize_beatgrid@normal_form_is_fixed_point', P_ + 'normalize_beatgrid@any_start_index'],
        'level': 'proof',
        'assumptions': [
            'double is modelled as the reals: "idempotent up to floating-point rounding" is proved as exact idempotence over the reals; the bracket sc <= last < sc + one beat can be off by an ulp in IEEE arithmetic',
            'domain of the proof: strictly increasing grid of at most 2^20 markers, beat indices in [-4, 2^20], |sample offsets| <= 2^39, 0 <= sample_count <= 2^39, every segment at least 1024 samples per beat (outside it the int32 beat arithmetic of the code can overflow - not claimed)',
            'grids with a beat index below -4 are outside the proved domain: see the KNOWN-FINDING exhibited by the variant contract @any_start_index',
            'idempotence = (every output is in normal form) + (a grid in normal form is returned unchanged); the step from pairwise-adjacent order of the output to the all-pairs order required by the second contract is transitivity (an induction that is not mechanised)',
            'std::find_if / vector::erase are models: first position satisfying the real (lifted) predicate; erase of a prefix/suffix moves a window over the same arrays',
            'trusted: the vcgen symbolic executor (/verif/vlib/vcgen.py), its manual quantifier instantiation (only ever weakens hypotheses) and z3',
        ],
        'explanation': 'normalize_beatgrid is symbolically executed from the clang AST (all 2^k paths through the trimming and the two arithmetic blocks); the postconditions transcribe the property: first index -4, last marker in [end, end + one beat), interior markers are input markers verbatim, first and last segment keep their samples-per-beat (witnessed by the value the code computed), only invalid_argument escapes, every vector index / iterator range / int32 conversion is safe; idempotence via a second contract on normal-form inputs.',
    },
    'C19': {
        'tus': [E + 'engine.cpp'],
        'functions': [P_ + 'util::waveform_quantisation_number', P_ + 'util::calculate_high_resolution_waveform_extents',
                      P_ + 'util::calculate_overview_waveform_extents', P_ + 'calculate_high_resolution_waveform_extents',
                      P_ + 'calculate_overview_waveform_extents',
                      'lemma:C19.mono_high_resolution', 'lemma:C19.mono_overview', 'lemma:C19.size_is_ceiling'],
        'level': 'proof',
        'assumptions': [
            'integers are mathematical with a generated range obligation for every UB-capable operation; unsigned arithmetic is reduced mod 2^64 explicitly',
            'double is modelled as the reals: the sample rate is any real in [0, 2^31]; int -> double is the exact embedding (exact in IEEE-754 below 2^53, so the overview span is exact for sample counts below 2^53 and correctly rounded above)',
            'domain of the proof: sample_count <= 2^62 and 0 <= sample_rate <= 2^31 (the property\'s own domain)',
            'trusted: the vcgen symbolic executor in /verif/vlib/vcgen.py (own code) and z3',
        ],
        'explanation': 'The three arithmetic functions and the two public wrappers are symbolically executed from the clang AST; each postcondition (cover, minimality, emptiness condition, 1024 entries spanning the count rounded down to the quantisation number) and each generated no-UB side condition is a z3 validity query over the integers/reals for all inputs; monotonicity is a lemma over the contracts.',
    },
    'C13': {
        'tus': [E + 'schema/schema.cpp', E + 'engine_library_dir_utils.cpp'],
        'functions': [P_ + 'schema::detect_schema', P_ + 'detect_is_database2'],
        'level': 'proof',
        'assumptions': [
            'detect_schema is checked as a slice starting at `switch (version.maj)`: the two SQL statements above it (existence of the Information table; SELECT of the version triple) are dropped and the triple becomes a parameter - that the triple is read correctly is assumed (it is SQL)',
            'get_column_type (PRAGMA table_info through sqlite_modern_cpp) is external: assumed to return any optional string or throw',
            'djinterop::util::path_exists (stat) is external: assumed to answer consistently per path; path identity is tracked by a ghost tag (which literal was appended), string contents are abstract',
            'load_database / engine_storage dispatch on the detected value is not covered (constructs SQL-backed objects)',
            'the decision table is transcribed from engine_schema.hpp (19 enumerators incl. 3.0.0, which detect_schema accepts and the reference tests load)',
        ],
        'explanation': 'Loop-free decision code checked on its full input domain: all of int^3 for the version triple x every column-type answer, and all 2^3 presence combinations of directory / m.db / Database2/m.db; the postcondition is the documented decision table, so any misidentified triple, missing rejection or wrong layout row fails a named ensures.',
    },
    'C05': {
        'tus': [EDU] + V2 + V1,
        'functions': DEC_PRIMS + [P_ + 'decode_extra', P_ + 'zlib_uncompress'] + V2_DEC + V1_HELP + V1_DEC,
        'level': 'proof',
        'assumptions': ZLIB_ASSUME + [
            'termination is proved as: every loop has a strictly decreasing variant (cbmc decreases clauses) and every callee terminates by its own contract; "promptly" is not quantified',
            'exception objects are abstracted to their dynamic type; std::bad_alloc below max_size is not modelled',
            'memcpy(d, s, 0) with a null pointer (empty vector) is not reported (defined by every libc and by C2y)',
        ],
        'explanation': 'Every decoder, the decompression routine and every helper they call is checked against its contract by cbmc: all reads in bounds for every buffer up to 2^31-1 bytes and every embedded count, no signed overflow, only std::exception-derived exception kinds escape, every loop closed by an inductive invariant and a decreasing variant (no unwinding bound).',
    },
}


for _p in PROPS.values():
    _seen = []
    for _k in _p['functions']:
        if _k not in _seen:
            _seen.append(_k)
    _p['functions'] = _seen
