"""Which functions, contracts and translation units decide which property."""
E = 'src/djinterop/engine/'
EDU = E + 'encode_decode_utils.cpp'
V2 = [E + 'v2/beat_data_blob.cpp', E + 'v2/quick_cues_blob.cpp', E + 'v2/loops_blob.cpp',
      E + 'v2/overview_waveform_data_blob.cpp', E + 'v2/track_data_blob.cpp']
V1 = [E + 'v1/performance_data_format.cpp']
ANON = '(anonymous namespace)::'
P_ = 'djinterop::engine::'

DEC_PRIMS = [P_ + n for n in ('decode_uint8', 'decode_int32_le', 'decode_int32_be', 'decode_int64_le', 'decode_int64_be',
                              'decode_double_le', 'decode_double_be')]
ENC_PRIMS = [P_ + n for n in ('encode_uint8', 'encode_int32_le', 'encode_int32_be', 'encode_int64_le', 'encode_int64_be',
                              'encode_double_le', 'encode_double_be')]
V2_DEC = [P_ + 'v2::' + ANON + 'decode_beatgrid'] + [P_ + 'v2::%s::from_blob' % b for b in
          ('beat_data_blob', 'quick_cues_blob', 'loops_blob', 'overview_waveform_data_blob', 'track_data_blob')]
V1_HELP = [P_ + 'v1::' + ANON + 'prohibit<std::optional<std::decay_t<double&>>(constint&,double&)>',
           P_ + 'v1::' + ANON + 'prohibit<std::optional<std::decay_t<int&>>(constint&,int&)>',
           'djinterop::util::optional_static_cast<std::optional<musical_key>(conststd::optional<int>&)>']
V1_DEC = [P_ + 'v1::' + ANON + 'decode_beatgrid'] + [P_ + 'v1::%s::decode' % b for b in
          ('beat_data', 'high_res_waveform_data', 'loops_data', 'overview_waveform_data', 'quick_cues_data', 'track_data')]

ZLIB_ASSUME = [
    'zlib inflate/deflate meet the contract transcribed from zlib.h in /verif/models/verif_zlib.h (read only next_in[0,avail_in), write only next_out[0,avail_out), consistent counters, Z_OK only on progress, Z_BUF_ERROR only without progress, every finite input yields finite output); zlib itself is not verified',
    'decompressed payloads are at most 2^31-1 bytes (the Engine length prefix is a signed 32-bit count; larger expansions are treated as allocation failure)',
    'blobs are at most 2^31-1 bytes (SQLite hard limit)',
]

PROPS = {
    'C13': {
        'tus': [E + 'schema/schema.cpp', E + 'engine_library_dir_utils.cpp'],
        'functions': [P_ + 'schema::detect_schema', P_ + 'detect_is_database2'],
        'level': 'proof',
        'assumptions': [
            'detect_schema is checked as a slice starting at `switch (version.maj)`: the two SQL statements above it (existence of the Information table; SELECT of the version triple) are dropped and the triple becomes a parameter - that the triple is read correctly is assumed (it is SQL)',
            'get_column_type (PRAGMA table_info through sqlite_modern_cpp) is external: assumed to return any optional string or throw',
            'djinterop::util::path_exists (stat) is external: assumed to answer consistently per path; path identity is tracked by a ghost tag (which literal was appended), string contents are abstract',
            'load_database / engine_storage dispatch on the detected value is not covered (constructs SQL-backed objects)',
            'the decision table is transcribed from engine_schema.hpp (19 enumerators incl. 3.0.0, which detect_schema accepts and the reference tests load)',
        ],
        'explanation': 'Loop-free decision code checked on its full input domain: all of int^3 for the version triple x every column-type answer, and all 2^3 presence combinations of directory / m.db / Database2/m.db; the postcondition is the documented decision table, so any misidentified triple, missing rejection or wrong layout row fails a named ensures.',
    },
    'C05': {
        'tus': [EDU] + V2 + V1,
        'functions': DEC_PRIMS + [P_ + 'decode_extra', P_ + 'zlib_uncompress'] + V2_DEC + V1_HELP + V1_DEC,
        'level': 'proof',
        'assumptions': ZLIB_ASSUME + [
            'termination is proved as: every loop has a strictly decreasing variant (cbmc decreases clauses) and every callee terminates by its own contract; "promptly" is not quantified',
            'exception objects are abstracted to their dynamic type; std::bad_alloc below max_size is not modelled',
            'memcpy(d, s, 0) with a null pointer (empty vector) is not reported (defined by every libc and by C2y)',
        ],
        'explanation': 'Every decoder, the decompression routine and every helper they call is checked against its contract by cbmc: all reads in bounds for every buffer up to 2^31-1 bytes and every embedded count, no signed overflow, only std::exception-derived exception kinds escape, every loop closed by an inductive invariant and a decreasing variant (no unwinding bound).',
    },
}
