"""Property runner: runs the function checks of a property in parallel, triages failures, replays, writes evidence."""
import os, re, sys, json, time, collections, traceback, subprocess
from concurrent.futures import ThreadPoolExecutor
from . import cbmcdrv, specs as specmod
from .cbmcdrv import Undecided, VERIF

REPO = os.environ.get('VERIF_REPO', '/repo')
OUT = os.environ.get('VERIF_OUT_DIR') or os.path.join(VERIF, 'out')
EVID = os.environ.get('VERIF_EVIDENCE_DIR') or os.path.join(VERIF, 'evidence')
REPLAYS = os.environ.get('VERIF_REPLAY_DIR') or os.path.join(VERIF, 'replays')
KNOWN = os.path.join(VERIF, 'known_findings.txt')

AUXILIARY = {'loop_invariant_base', 'loop_invariant_step', 'loop_assigns', 'model_precondition', 'spec_wellformed', 'assertion', 'cut'}

TRUSTED_BASE = [
    'clang 14 front end (typed JSON AST of the /repo working tree) and cxx2c, the rule-per-node C++ -> C translator in /verif/cxx2c',
    'container models in /verif/models (libstdc++ vector/string/optional meet the C++17 contracts; storage never moves; allocation failure below max_size not modelled)',
    'cbmc 6.11.0 / goto-cc / goto-instrument --apply-loop-contracts (bit-precise machine arithmetic, LP64)',
    'generated contract stubs: a caller sees assert(requires); havoc(assigns); assume(ensures) of each callee, never its body',
]


def load_known():
    known, fixed = [], []
    if os.path.exists(KNOWN):
        for line in open(KNOWN):
            line = line.strip()
            if not line or line.startswith('#'):
                continue
            m = re.match(r'^known:\s+property=(\S+)\s+function=(\S+)\s+obligation=/(.*?)/\s+::\s+(.*)$', line)
            if m:
                known.append({'property': m.group(1), 'function': m.group(2), 'rx': m.group(3), 'what': m.group(4)})
                continue
            m = re.match(r'^fixed:\s+property=(\S+)\s+(\S+)\s+(.*)$', line)
            if m:
                fixed.append({'property': m.group(1), 'commit': m.group(2), 'what': m.group(3)})
    return known, fixed


class FnResult:
    def __init__(self, key):
        self.key = key
        self.obligations = []
        self.undecided = None
        self.seconds = 0.0
        self.info = {}
        self.cmd = ''
        self.backend = 'cbmc'
        self.solver = 'minisat2 (cbmc default)'
        self.bounded = None


def check_function(P, specs, key, outdir, timeout, tier):
    r = FnResult(key)
    t0 = time.time()
    sp0 = specs.get(key)
    if sp0 is not None and (sp0.extra.get('backend') == 'vcgen' or sp0.is_lemma):
        return check_function_vcgen(P, specs, key, outdir, timeout, tier)
    try:
        info = cbmcdrv.build_check(P, specs, key, outdir)
        r.info = info
        opts = {o.split('=')[0]: (o.split('=') + [''])[1] for o in info.get('options', [])}
        kw = {}
        if 'precise' in opts:
            kw['defs'] = ('VERIF_CBMC',)
            r.bounded = 'model loops unwound (unwind=%s, unwinding assertions on: complete when they pass)' % opts.get('unwind', '?')
        if 'unwind' in opts:
            kw['unwind'] = int(opts['unwind'])
        if '#loop' in key and 'defs' not in kw:
            # a loop-body slice speaks about ONE record at an arbitrary position: a 4 KiB harness buffer hosts every case
            kw['defs'] = ('VERIF_CBMC', 'VERIF_ABSTRACT', 'VERIF_MAXBUF=4096UL')
        res = cbmcdrv.run_cbmc(info, timeout=timeout, **kw)
        r.obligations = res['obligations']
        r.cmd = res['cmd']
        if res['messages']:
            r.undecided = 'solver messages: ' + ' | '.join(res['messages'][:3])
    except Undecided as e:
        r.undecided = str(e)
    except Exception as e:
        r.undecided = 'internal error: %s\n%s' % (e, traceback.format_exc()[-1500:])
    r.seconds = time.time() - t0
    return r


def check_function_vcgen(P, specs, key, outdir, timeout, tier):
    from . import vcgen
    from cxx2c.ctypes_ import Unsupported
    r = FnResult(key)
    r.backend = 'vcgen'
    r.solver = 'z3 %s (Int/Real/Array)' % vcgen.z3.get_version_string()
    t0 = time.time()
    try:
        if key.startswith('lemma:'):
            vcs, eng = vcgen.prove_lemma(P, specs, key[6:])
            eng.inputs = {}
        else:
            if key.split('@')[0] not in P.functions:
                raise Undecided('extraction break: function %s not found in the current tree' % key)
            eng = vcgen.Engine(P, specs, key)
            vcs = eng.verify_function()
        vcgen.discharge(vcs, timeout_ms=30000 if tier == 'quick' else 300000)
        for i, vc in enumerate(vcs):
            o = {'name': '%s.vc.%d' % (cbmcdrv.short(key), i), 'desc': vc.name + (' (%s)' % vc.where if vc.where else ''), 'class': vc.cls,
                 'status': vc.status, 'location': vc.where, 'seconds': round(vc.seconds, 3)}
            if vc.status == 'FAILURE' and vc.model is not None and vc.cls != 'vacuity':
                o['model'] = {str(d): str(vc.model[d]) for d in vc.model.decls()}
            r.obligations.append(o)
        r.info = {'name': cbmcdrv.short(key).replace('::', '_'), 'path': None, 'has_loop_contracts': False, 'callees': eng.callees,
                  'ast_hash': None, 'rules': {}, 'assumptions': sorted(eng.assumptions), 'inputs': list(eng.inputs)}
        r.cmd = 'z3 (python API): unsat check of hypotheses /\\ not goal per obligation, 30 s each'
    except Undecided as e:
        r.undecided = str(e)
    except Unsupported as e:
        r.undecided = 'extraction break: %s' % e
    except Exception as e:
        r.undecided = 'internal error: %s\n%s' % (e, traceback.format_exc()[-1500:])
    r.seconds = time.time() - t0
    return r


_VC_ARGS = None

def _vcgen_batch():
    P, specs, keys, outdir, timeout, tier = _VC_ARGS
    return {key: check_function_vcgen(P, specs, key, outdir, timeout, tier) for key in keys}


def bounded_confirmation(r, sp, timeout=300):
    """A failed obligation under loop contracts starts from an arbitrary invariant state.  Re-check the same function
    WITHOUT loop contracts (loops unwound, small symbolic buffers): a failure found there is a real execution from the
    function entry (modulo the callee contract stubs).  Returns (top-level failed obligations, description)."""
    if r.backend != 'cbmc' or not r.info.get('path'):
        return None, 'not applicable'
    bound_buf, unwind = 64, 8
    m_ = re.match(r'maxbuf:(\d+)\s+unwind:(\d+)', (sp.extra.get('confirm', '') if sp else ''))
    if m_:
        bound_buf, unwind = int(m_.group(1)), int(m_.group(2))
    try:
        res = cbmcdrv.run_cbmc(r.info, timeout=timeout, defs=('VERIF_CBMC', 'VERIF_ABSTRACT', 'VERIF_MAXBUF=%dUL' % bound_buf),
                               unwind=unwind, unwind_assert=False, tag='.bounded')
    except Undecided as e:
        return None, 'bounded confirmation undecided: %s' % e
    j = judge_obligations(res['obligations'], sp)
    top = [o for o in j['failed'] if o['class'] not in AUXILIARY and o['class'] not in ('loop_decreases', 'unwinding')]
    return top, 'loops unwound %d times, buffers <= %d bytes, no loop contracts: %d top-level obligations fail' % (unwind, bound_buf, len(top))


def judge(r, sp):
    return judge_obligations(r.obligations, sp)


def judge_obligations(obligations, sp):
    """Split obligations of one function check into discharged / failed / tolerated / undecided."""
    out = {'discharged': [], 'failed': [], 'tolerated': [], 'vacuous': [], 'unknown': []}
    for o in obligations:
        if o['class'] == 'vacuity':
            if o['status'] == 'FAILURE':
                out['discharged'].append(o)      # the marker is reachable: the check is not vacuous
            elif o['status'] == 'UNKNOWN' and o['desc'].startswith('vacuity: lemma'):
                # satisfiability of quantified lemma hypotheses over uninterpreted functions: z3 gives up (no model
                # finding for p(k+1) = p(k) + s); not counted either way, listed in the evidence
                o['tolerated'] = ('lemma_hypotheses_sat_unknown', 'z3 could not decide satisfiability of the quantified hypotheses (they have the obvious arithmetic-progression model)')
                out['tolerated'].append(o)
            else:
                out['vacuous'].append(o)
            continue
        if o['status'] == 'SUCCESS':
            out['discharged'].append(o)
            continue
        tol = None
        for nm, (rx, why) in sp.tolerate.items():
            if re.search(rx, o['desc']):
                tol = (nm, why)
        if tol:
            o['tolerated'] = tol
            out['tolerated'].append(o)
        elif o['status'] == 'FAILURE':
            out['failed'].append(o)
        else:
            out['unknown'].append(o)
    return out


def run_property(pid, cfg, tier='quick', seed=0, replayer=None):
    """cfg: {'tus': [...], 'functions': [keys], 'level_text':..., 'assumptions': [...], 'timeout': {...}}"""
    t0 = time.time()
    os.makedirs(EVID, exist_ok=True)
    os.makedirs(REPLAYS, exist_ok=True)
    outdir = os.path.join(OUT, pid)
    os.makedirs(outdir, exist_ok=True)
    specs = specmod.load_specs(os.path.join(VERIF, 'contracts'))
    known, fixed = load_known()
    undecided, violations, known_hits = [], [], []
    try:
        P = cbmcdrv.load_program(REPO, outdir, cfg['tus'])
    except Exception as e:
        print('UNDECIDED property=%s extraction break: %s' % (pid, e))
        write_evidence(pid, tier, seed, cfg, [], {}, [], ['extraction break: %s' % e], time.time() - t0, 0)
        return 2
    timeout = cfg.get('timeout', {}).get(tier, 600 if tier == 'quick' else 3600)
    only = [x for x in os.environ.get('VERIF_ONLY', '').split(',') if x]
    if only:   # sensitivity runs restrict the check to the functions a scripted mutation touches
        cfg = dict(cfg, functions=[f for f in cfg['functions'] if any(o in f for o in only)])
    jobs = int(os.environ.get('VERIF_JOBS', '14'))
    results = []
    def is_vc(key):
        return specs.get(key) is not None and (specs[key].extra.get('backend') == 'vcgen' or specs[key].is_lemma)
    # the z3 Python API shares one global context and is not thread safe (even reference-count releases from the garbage
    # collector of another thread race with a running solver): the vcgen functions run one after the other in a child
    # process forked BEFORE any worker thread exists; this process never touches z3
    vkeys = [key for key in cfg['functions'] if is_vc(key)]
    vpool = vasync = None
    if vkeys:
        import multiprocessing
        global _VC_ARGS
        _VC_ARGS = (P, specs, vkeys, outdir, timeout, tier)     # inherited by the forked child (no pickling of the AST)
        vpool = multiprocessing.get_context('fork').Pool(1)
        vasync = vpool.apply_async(_vcgen_batch)
    with ThreadPoolExecutor(jobs) as ex:
        futs = {key: ex.submit(check_function, P, specs, key, outdir, timeout, tier) for key in cfg['functions'] if not is_vc(key)}
        vres = {}
        if vasync is not None:
            try:
                vres = vasync.get(timeout=4 * timeout + 600)
            except Exception as e:
                for key in vkeys:
                    r_ = FnResult(key)
                    r_.backend = 'vcgen'
                    r_.undecided = 'vcgen worker process failed: %r' % (e,)
                    vres[key] = r_
            vpool.terminate()
        for key in cfg['functions']:
            results.append(vres[key] if key in vres else futs[key].result())
    table = {}
    for r in results:
        sp = specs.get(r.key)
        if r.undecided and not r.obligations:
            table[r.key] = {'status': 'undecided', 'reason': r.undecided[:500], 'seconds': round(r.seconds, 1)}
            # the unbounded proof could not be run (time-out, a new loop without contract, ...): still look for a real
            # violating execution with loops unwound and small buffers; finding none leaves the property undecided (exit 2)
            # (not after a time-out of a structure-mode function: its harness and stubs live in the large-buffer world, and the
            # small-buffer bounded run reports a spurious callee precondition - seen when two heavy checks shared the machine)
            if r.backend == 'cbmc' and r.info.get('path') and sp is not None and 'extraction break' not in r.undecided \
                    and not ('cbmc timeout' in r.undecided and 'structure' in r.info.get('options', [])):
                btop, bdesc = bounded_confirmation(r, sp, timeout=420)
                if btop:
                    r.obligations = btop
                    table[r.key].update({'status': 'failed', 'failed': ['%s | %s' % (o['name'], o['desc']) for o in btop], 'obligations': len(btop), 'discharged': 0})
                    violations.append((r, btop, {'failed': btop}))
                    r.bounded_only = bdesc
                    continue
            undecided.append('%s: %s' % (r.key, r.undecided))
            continue
        j = judge(r, sp)
        table[r.key] = {'status': 'ok', 'obligations': len(r.obligations) - len(j['tolerated']), 'discharged': len(j['discharged']),
                        'by_class': dict(collections.Counter(o['class'] for o in j['discharged'])),
                        'tolerated': ['%s: %s (%s)' % (o['name'], o['desc'], o['tolerated'][1]) for o in j['tolerated']],
                        'backend': ('vcgen (own WP generator over the clang AST) -> z3' if r.backend == 'vcgen' else 'cbmc %s' % ('+ goto-instrument --apply-loop-contracts' if r.info.get('has_loop_contracts') else '(loop-free: complete)')),
                        'solver': r.solver + ('; %d properties by z3 (cbmc --z3)' % sum(1 for o_ in r.obligations if o_.get('solver')) if any(o_.get('solver') for o_ in r.obligations) else ''), 'seconds': round(r.seconds, 1), 'ast_hash': r.info.get('ast_hash'),
                        'callees_by_contract': [cbmcdrv.short(c) for c in r.info.get('callees', [])], 'translation_rules_fired': sum(r.info.get('rules', {}).values())}
        if j['vacuous']:
            undecided.append('%s: vacuity marker not reachable: %s' % (r.key, ', '.join(o['desc'] for o in j['vacuous'])))
            table[r.key]['status'] = 'vacuous'
        if r.undecided:
            undecided.append('%s: %s' % (r.key, r.undecided))
        if j['failed']:
            table[r.key]['status'] = 'failed'
            table[r.key]['failed'] = ['%s | %s' % (o['name'], o['desc']) for o in j['failed']]
            # known findings
            rest = []
            for o in j['failed']:
                hit = None
                for k in known:
                    if k['property'] == pid and k['function'] == cbmcdrv.short(r.key) and re.search(k['rx'], o['desc']):
                        hit = k
                if hit:
                    known_hits.append((hit, r.key, o))
                    table[r.key]['obligations'] -= 1      # exhibits a recorded finding: listed, not part of the proof claim
                    table[r.key].setdefault('known_finding_obligations', []).append('%s | %s' % (o['name'], o['desc']))
                else:
                    rest.append(o)
            if rest:
                violations.append((r, rest, j))
            else:
                table[r.key]['status'] = 'known-finding'
                table[r.key].pop('failed', None)
                if j['unknown']:
                    # a contract that only exhibits a recorded finding: obligations the solver left open are listed, not claimed
                    table[r.key]['obligations'] -= len(j['unknown'])
                    table[r.key]['left_open_in_exhibit'] = ['%s | %s' % (o['name'], o['desc']) for o in j['unknown']]
        elif j['unknown']:
            undecided.append('%s: %d obligations left UNKNOWN by cbmc without any failure' % (r.key, len(j['unknown'])))
            table[r.key]['status'] = 'undecided'
    # report
    rc = 0
    for hit in {id(h[0]): h[0] for h in known_hits}.values():
        print('KNOWN-FINDING: property=%s %s' % (pid, hit['what']))
    nviol = 0
    for r, failed, j in violations:
        top = [o for o in failed if o['class'] not in AUXILIARY]
        outcome = {'verdict': 'bounded-confirmation', 'detail': r.bounded_only} if getattr(r, 'bounded_only', None) else None
        spx = specs.get(r.key)
        def structural(o_):
            # an obligation about the SHAPE of the code (which codec call happens where); anything else is about values
            m_ = re.match(r'(ensures_exc|ensures) (\w+)', o_['desc'])
            txt = ''
            if m_ and spx is not None:
                txt = (spx.ensures_exc if m_.group(1) == 'ensures_exc' else spx.ensures).get(m_.group(2), '')
            return bool(re.search(r'\b(WROTE|LOOPED|CALLED|READ|COPIED|verif_ncalls|RETP|RETVAL)\b', txt)) or o_['class'] == 'content'
        if top and spx is not None and spx.extra.get('confirm_with') and 'structure' in spx.options and all(structural(o_) for o_ in top):
            # a structural (call-sequence) obligation failed: the code is shaped differently from the contract.  That is
            # not yet a violation: confirm with the byte-level contract of the same slice (bounded), which yields a real input
            ck = spx.extra['confirm_with']
            P2 = cbmcdrv.load_program(REPO, outdir, cfg['tus'])
            r2 = check_function(P2, specs, ck, outdir, timeout, tier)
            j2 = judge(r2, specs.get(ck)) if r2.obligations else {'failed': []}
            if r2.obligations and j2['failed']:
                top = j2['failed']
                failed = failed + j2['failed']
                outcome = {'verdict': 'bounded-confirmation', 'detail': 'byte-level contract %s (bounded, precise models) fails: %s' % (ck, '; '.join(o['desc'] for o in j2['failed'][:4]))}
            else:
                top = []
                outcome = {'verdict': 'undecided', 'detail': 'the call structure differs from the contract but the bounded byte-level contract %s found no disagreement%s' % (ck, (' (%s)' % r2.undecided) if r2.undecided else '')}
        if not top and r.backend == 'cbmc' and outcome is None:
            # only my own invariants / frames broke: look for a real execution that violates a top-level obligation
            btop, bdesc = bounded_confirmation(r, specs.get(r.key))
            if btop:
                top = btop
                failed = failed + btop
                outcome = {'verdict': 'bounded-confirmation', 'detail': bdesc}
            else:
                outcome = {'verdict': 'undecided', 'detail': bdesc}
        if replayer is not None and top:
            prior = outcome
            try:
                ro = replayer(pid, P, specs, r, top, outdir)
            except Undecided as e:
                ro = {'verdict': 'replay-undecided', 'detail': str(e)}
            except Exception as e:
                ro = {'verdict': 'replay-undecided', 'detail': 'replay machinery error: %s' % e}
            if ro is not None:
                if prior:
                    ro['confirmation'] = prior
                outcome = ro
        name = re.sub(r'[^A-Za-z0-9_.-]', '_', '%s-%s-%s' % (pid, r.info.get('name', 'fn'), (top or failed)[0]['name']))
        path = os.path.join(REPLAYS, name + '.json')
        rep = {'property': pid, 'function': r.key, 'failed_obligations': [{k: o[k] for k in ('name', 'desc', 'class', 'status', 'location')} for o in failed],
               'checker_cmd': r.cmd, 'generated_c': r.info.get('path'), 'replay': outcome}
        if not top:
            # only auxiliary obligations (my invariants / frames) failed and no real execution confirms a problem
            undecided.append('%s: proof broken (auxiliary obligations %s) but no violation found by the bounded confirmation' % (
                r.key, ', '.join(o['desc'] for o in failed[:3])))
            json.dump(rep, open(path, 'w'), indent=1)
            continue
        json.dump(rep, open(path, 'w'), indent=1)
        nviol += 1
        suffix = '' if outcome and outcome.get('verdict') == 'reproduced' else ' no-failing-input-found'
        print('VIOLATION property=%s replay=%s%s' % (pid, path, suffix))
        print('  failed obligation: %s :: %s (%s) in %s' % ((top or failed)[0]['name'], (top or failed)[0]['desc'], (top or failed)[0]['class'], cbmcdrv.short(r.key)))
        rc = 1
    if rc == 0 and undecided:
        for u in undecided:
            print('UNDECIDED property=%s %s' % (pid, u[:600]))
        rc = 2
    write_evidence(pid, tier, seed, cfg, results, table, fixed, undecided, time.time() - t0, nviol, known_hits)
    if rc == 0:
        tot = sum(t.get('obligations', 0) for t in table.values())
        dis = sum(t.get('discharged', 0) for t in table.values())
        print('PASS property=%s functions=%d obligations=%d discharged=%d wall=%.0fs' % (pid, len(table), tot, dis, time.time() - t0))
    return rc


def write_evidence(pid, tier, seed, cfg, results, table, fixed, undecided, wall, nviol, known_hits=()):
    tot = sum(t.get('obligations', 0) for t in table.values())
    dis = sum(t.get('discharged', 0) for t in table.values())
    samples = []
    for r in results[:]:
        for o in r.obligations[:400]:
            if o['class'] in ('ensures', 'callee_precondition', 'loop_decreases', 'loop_invariant_step', 'raises', 'cxx_check', 'zlib_framing') and len(samples) < 40:
                samples.append({'function': cbmcdrv.short(r.key), 'obligation': o['name'], 'text': o['desc'], 'class': o['class'], 'status': o['status']})
    tolerated = sorted({t for v in table.values() for t in v.get('tolerated', [])})
    ev = {
        'property_id': pid, 'tier': tier, 'seed': seed, 'level': cfg.get('level', 'proof'),
        'coverage': {
            'obligations': tot, 'discharged': dis,
            'checker_cmd': 'cbmc <fn>.gb ' + ' '.join(cbmcdrv.CBMC_FLAGS) + '  (after goto-cc -DVERIF_CBMC -DVERIF_ABSTRACT --function verif_harness; goto-instrument --apply-loop-contracts where the function has loops)',
            'trusted_base': TRUSTED_BASE + cfg.get('trusted_base', []),
            'functions_under_contract': [cbmcdrv.short(k) for k in table],
            'per_function': {cbmcdrv.short(k): v for k, v in table.items()},
            'bounded_checks': cfg.get('bounded_checks', []),
            'tolerated_obligation_classes': tolerated,
            'undecided': undecided,
            'known_findings_hit': [h[0]['what'] for h in known_hits],
            'fixed_findings': ['%s %s' % (f['commit'], f['what']) for f in fixed if f['property'] == pid],
            'samples': samples,
            'explanation': cfg.get('explanation', ''),
            'solver_seconds_total': round(sum(v.get('seconds', 0) for v in table.values()), 1),
        },
        'assumptions': cfg.get('assumptions', []) + ['tolerated: ' + t for t in tolerated],
        'wall_s': round(wall, 1), 'violations': nviol,
    }
    os.makedirs(EVID, exist_ok=True)
    json.dump(ev, open(os.path.join(EVID, pid + '.json'), 'w'), indent=1)
